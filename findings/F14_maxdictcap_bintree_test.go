// place at: zz_finding_f14_test.go
// Witness of known finding F-14: WriterConfig.Verify accepts DictCap == 4294967295 (lzma.MaxDictCap), but
// with the BinaryTree matcher the constructor then fails (newBinTree refuses capacities >= 2^32-1), so a
// configuration "the library accepts as valid" cannot be used. The test FAILS while the defect is present.
// (Nothing large is allocated: the matcher is created, and refused, before the dictionary buffer.)
package xz

import (
	"io"
	"testing"

	"github.com/ulikunitz/xz/lzma"
)

func TestFindingF14(t *testing.T) {
	c := WriterConfig{DictCap: 1<<32 - 1, Matcher: lzma.BinaryTree}
	v := c
	if err := v.Verify(); err != nil {
		t.Skipf("Verify rejects the configuration: %v", err)
	}
	if _, err := c.NewWriter(io.Discard); err != nil {
		t.Fatalf("FINDING F-14 reproduced: Verify accepts the configuration, NewWriter fails on a never-failing sink: %v", err)
	}
}
