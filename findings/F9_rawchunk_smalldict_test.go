// place at: lzma/zz_finding_f9_test.go
// Witness of known finding F-9 (DESIGN.md section 5): with a dictionary smaller than a chunk the
// raw-chunk fallback of Writer2 copies the chunk's bytes out of the dictionary after part of them
// has already been overwritten; encoderDict.CopyN then returns ErrNoSpace ("insufficient space")
// although the sink never failed. The test FAILS while the defect is present.
package lzma

import (
	"bytes"
	"math/rand"
	"testing"
)

func TestFindingF9(t *testing.T) {
	rnd := rand.New(rand.NewSource(1))
	data := make([]byte, 200000)
	rnd.Read(data)
	var buf bytes.Buffer
	w, err := Writer2Config{DictCap: 4096, BufSize: 273}.NewWriter2(&buf)
	if err != nil {
		t.Skipf("constructor: %v", err)
	}
	if _, err = w.Write(data); err != nil {
		t.Fatalf("FINDING F-9 reproduced: Write on a never-failing sink returned %v", err)
	}
	if err = w.Close(); err != nil {
		t.Fatalf("FINDING F-9 reproduced: Close on a never-failing sink returned %v", err)
	}
}
