#!/bin/bash
# usage: mutcheck.sh <patch.diff> <property>...   — applies the patch to a scratch copy of /repo
# (outside /repo and /verif), runs the property checks against it, removes the copy.
# exit 0 if at least one check reported a VIOLATION (mutant caught), 1 otherwise.
set -u
patch=$(readlink -f "$1"); shift
d=$(mktemp -d /tmp/govc-mut-XXXXXX)
trap 'rm -rf "$d"' EXIT
rsync -a --exclude .git /repo/ "$d/repo/"
( cd "$d/repo" && patch -p1 -s < "$patch" ) || { echo "PATCH-FAILED $patch"; exit 2; }
caught=1
for p in "$@"; do
  out=$(GOVC_REPO="$d/repo" GOVC_VERIF="$d/verif-out" GOVC_SPEC=/verif/spec GOVC_LOCK=/verif /verif/bin/govc check --property "$p" 2>&1)
  echo "$out" | grep -E "VIOLATION|KNOWN-FINDING|^property" | sed "s|$d|<scratch>|g"
  echo "$out" | grep -q "^VIOLATION" && caught=0
done
exit $caught
