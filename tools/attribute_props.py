# development helper: functions of the shared LZMA core carry the properties of every format that runs through them
import re,json,glob,os,sys
root=sys.argv[1]; apply=len(sys.argv)>2 and sys.argv[2]=='apply'
os.chdir(root)
props={}
for l in open('/verif/properties.jsonl'):
    p=json.loads(l); props[p['id']]=set(p['anchors']['files'])
# C08 ranges over both matchers: the match finders carry it; only these files are donated to C08 (see C08ONLY below)
extra={'C12':{'format.go'},'C07':{'lzma/decoderdict.go','lzma/buffer.go'},'C02':{'lzma/encoderdict.go','lzma/buffer.go'},'C06':{'lzma/encoderdict.go','lzma/buffer.go','lzma/rangecodec.go','lzma/state.go','lzma/literalcodec.go','lzma/lengthcodec.go','lzma/distcodec.go','lzma/treecodecs.go','lzma/prob.go'}}
for k,v in extra.items(): props[k]|=v
C08ONLY={'lzma/bintree.go','lzma/hashtable.go','lzma/matchalgorithm.go'}
pairs=[('C06','C01'),('C07','C03'),('C02','C01'),('C07','C11'),('C06','C09'),
       # reader side: completeness, soundness, truncation and no-panic obligations of one function belong to all four
       ('C03','C04'),('C03','C05'),('C03','C11'),('C04','C03'),('C04','C05'),('C04','C11'),('C11','C03'),('C11','C04'),('C11','C05'),('C05','C03'),('C05','C04'),('C12','C04'),('C12','C05'),('C13','C05')]
tot={}
for pkgdir,cfile in [('.','zz_contracts_verif.go'),('lzma','lzma/zz_contracts_verif.go')]:
    decls={}
    for g in glob.glob(pkgdir+'/*.go'):
        if g.endswith('_test.go') or g.endswith('zz_contracts_verif.go'): continue
        for m in re.finditer(r'^func (?:\((?:\w+ )?\*?(\w+)\) )?(\w+)\(',open(g).read(),re.M):
            key=(m.group(1)+'.' if m.group(1) else '')+m.group(2)
            decls[key]=os.path.relpath(g,'.')
    s=open(cfile).read().split('\n'); cur=None
    for i,l in enumerate(s):
        m=re.match(r'//@ func (\S+)',l)
        if m: cur=m.group(1)
        if l.startswith('//@   props') and cur:
            ps=l.split()[2:]
            f=decls.get(cur)
            if not f: continue
            if 'C01' in ps and 'C08' not in ps and f in C08ONLY:
                ps.append('C08'); tot['C08']=tot.get('C08',0)+1
            for tgt,donor in pairs:
                if donor in ps and tgt not in ps and f in props[tgt]:
                    ps.append(tgt); tot[tgt]=tot.get(tgt,0)+1
            s[i]='//@   props '+' '.join(ps)
    if apply: open(cfile,'w').write('\n'.join(s))
print(tot)
