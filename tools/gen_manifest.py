#!/usr/bin/env python3
"""Regenerates /verif/MANIFEST.json from the table below (kept valid at all times)."""
import json, subprocess
props = [json.loads(l) for l in open('/verif/properties.jsonl')]
# property -> (claimed?, level text, level note, design ref, technique, not-applicable reason)
CLAIMS = json.load(open('/verif/tools/claims.json'))
repo_commits = subprocess.run(['git','-C','/repo','log','--format=%h %s'],capture_output=True,text=True).stdout.splitlines()
hook_commits = [l.split()[0] for l in repo_commits if l.split(' ',1)[1].startswith('verif hook')]
checks, na = [], []
for p in props:
    c = CLAIMS.get(p['id'])
    if c and c.get('claimed'):
        checks.append({
            "property_id": p['id'],
            "quick_cmd": f"/verif/bin/govc check --property {p['id']} --tier quick",
            "thorough_cmd": f"/verif/bin/govc check --property {p['id']} --tier thorough",
            "evidence_file": f"/verif/evidence/{p['id']}.json",
            "replay_cmd_template": "cat {path}",
            "engine": "govc",
            "level_claimed": {"category": "proof", "text": c['text'], "design_ref": c.get('design_ref', 'DESIGN.md section 4')},
            "level_note": c['note'],
            "technique": c.get('technique', 'contract-based deductive verification: weakest-precondition style VCs from go/ssa, discharged by z3/cvc5'),
        })
    else:
        na.append({"property_id": p['id'], "reason": (c or {}).get('reason', 'contracts for this property are not yet discharged by the engine; nothing is claimed')})
m = {
 "version": 1,
 "setup_cmd": "cd /verif/engine && GOFLAGS=-mod=vendor GOPROXY=off GOSUMDB=off GOTOOLCHAIN=local go build -o /verif/bin/govc .",
 "hooks": {"guard": "verif",
           "enable": "contract files zz_contracts_verif.go (//go:build verif, comment-only) are read by /verif/bin/govc, which loads /repo with -tags=verif",
           "baseline_off_cmd": "cd /repo && go test -mod=mod -vet=off -count=1 ./...",
           "source_commits": hook_commits, "add_only": True},
 "engines": [{"name": "govc", "path": "/verif/engine", "serves_properties": [c['property_id'] for c in checks],
              "kind_free_text": "self-built VC generator over naive-form go/ssa of /repo's working tree; contracts in //@ comment files; obligations discharged by z3-new 5.1, cvc5 1.0, z3 4.8.12"}],
 "checks": checks,
 "not_applicable": na,
 "notes": "Technique family: contract-based deductive verification of the real code. See DESIGN.md. Obligation names are locked in obligations.lock; recorded defects in known_findings.txt.",
}
json.dump(m, open('/verif/MANIFEST.json','w'), indent=1)
print("checks:", [c['property_id'] for c in checks])
