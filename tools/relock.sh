#!/bin/bash
# development only: rewrite the lock sections of the given properties from the current run
cd /verif
for p in "$@"; do ./bin/govc check --property $p --relock 2>&1 | tail -1; done
echo "U-class entries in lock: $(grep -c '^U' obligations.lock)"
grep '^U' obligations.lock | head
