#!/bin/bash
# usage: confirm_seed.sh <mutant-dir> <seed-id> <property> <checks...>
# Confirms in a scratch worktree that the mutant compiles, passes the existing suite, that its demo
# fails with the change and passes without; then runs the listed property checks against it and
# stores everything under /verif/seeded/<seed-id>/.
set -u
export GOFLAGS=-mod=mod GOPROXY=off GOSUMDB=off GOTOOLCHAIN=local
src=$(readlink -f "$1"); id=$2; prop=$3; shift 3
wt=$(mktemp -d /tmp/govc-seed-XXXXXX); rmdir "$wt"
git -C /repo worktree add -q --detach "$wt" HEAD || exit 2
trap 'git -C /repo worktree remove --force "$wt" 2>/dev/null; rm -rf "$wt"' EXIT
place=$(head -1 "$src/demo_test.go" | sed -n 's|^// place at: *||p')
[ -z "$place" ] && { echo "no place-at line"; exit 2; }
res() { printf '%s' "$1"; }
cp "$src/demo_test.go" "$wt/$place"
pkgdir=$(dirname "$place")
base_demo=$(cd "$wt" && go test -mod=mod -vet=off -count=1 ./$pkgdir/ >/tmp/seed-base.log 2>&1 && echo pass || echo fail)
( cd "$wt" && git apply "$src/patch.diff" ) || { echo "patch does not apply"; exit 2; }
build=$(cd "$wt" && go build ./... >/dev/null 2>&1 && echo ok || echo fail)
mut_demo=$(cd "$wt" && go test -mod=mod -vet=off -count=1 ./$pkgdir/ >/tmp/seed-mut.log 2>&1 && echo pass || echo fail)
rm -f "$wt/$place"
suite=$(cd "$wt" && go test -mod=mod -vet=off -count=1 ./... >/tmp/seed-suite.log 2>&1 && echo pass || echo fail)
echo "build=$build suite_with_mutant=$suite demo_on_clean=$base_demo demo_on_mutant=$mut_demo"
caught=()
missed=()
for p in "$@"; do
  out=$(/verif/tools/mutcheck.sh "$src/patch.diff" "$p" 2>&1)
  if echo "$out" | grep -q "^VIOLATION"; then caught+=("$p: $(echo "$out" | grep '^VIOLATION' | head -3 | sed 's/replay=[^ ]* //' | tr '\n' ';')"); else missed+=("$p"); fi
done
echo "caught: ${caught[*]:-none}"; echo "missed: ${missed[*]:-none}"
if [ "$build" = ok ] && [ "$suite" = pass ] && [ "$base_demo" = pass ] && [ "$mut_demo" = fail ]; then
  d=/verif/seeded/$id; mkdir -p "$d"
  cp "$src/patch.diff" "$d/patch.diff"; cp "$src/demo_test.go" "$d/demo_test.go"; [ -f "$src/notes.md" ] && cp "$src/notes.md" "$d/notes.md"
  python3 - "$d" "$id" "$prop" "$build" "$suite" "$base_demo" "$mut_demo" "${caught[*]:-}" "${missed[*]:-}" <<'PY'
import json,sys,os
d,id_,prop,build,suite,base,mut,caught,missed=sys.argv[1:10]
notes=open(os.path.join(d,'notes.md')).read() if os.path.exists(os.path.join(d,'notes.md')) else ''
json.dump({"id":id_,"breaks_property":prop,"needs_to_manifest":notes[:1500],
 "confirmed":{"compiles":build,"existing_suite_with_change":suite,"demo_on_unchanged_tree":base,"demo_with_change":mut,
  "how":"tools/confirm_seed.sh: scratch git worktree of /repo HEAD; go build ./...; go test -mod=mod -vet=off -count=1 ./...; demo test placed per its first line"},
 "checks_catching":caught,"checks_missing":missed},open(os.path.join(d,'meta.json'),'w'),indent=1)
PY
  echo "KEPT $d"
else
  echo "REJECTED (not all four confirmations hold)"; tail -5 /tmp/seed-suite.log /tmp/seed-mut.log 2>/dev/null | head -30
fi
