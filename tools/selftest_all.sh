#!/bin/bash
# runs every seeded change of /verif/seeded against the check of the property it was written for
# (scratch copies under /tmp, removed after each run); prints one line per seed.
# usage: tools/selftest_all.sh [lanes]   (default 3 lanes)
cd /verif
lanes=${1:-3}
ls seeded | xargs -P "$lanes" -I{} bash -c 'id={}; p=${id%%-*}; out=$(tools/mutcheck.sh seeded/$id/patch.diff $p 2>&1); if echo "$out" | grep -q "^VIOLATION property=$p"; then echo "$id detected ($(echo "$out" | grep -m1 "^VIOLATION" | sed "s/.*obligation=//"))"; else echo "$id MISSED"; fi'
