// place at: lzma/zz_standin_b1_test.go
// Bounded stand-in B1 for assumption A1 (DESIGN.md 1.2): the operation codec and the range coder are inverse.
// For byte strings s over a small alphabet, EVERY parse of s into LZ operations that are valid at their
// position (literal; match (distance, length) with distance <= position, the bytes at that distance
// reproducing the next `length` bytes; lengths from a boundary set; length-1 only as short rep) is encoded
// with the real encoder.writeOp / rangeEncoder.Close and decoded with the real decoder.readOp / apply; the
// decoder must return the same operations, rebuild s, end in the same coder state (state number, rep[],
// every probability) and consume exactly the bytes written. BOUNDED: string lengths, alphabet, the number of
// parses per string and the property sets are limits stated in the output line; nothing beyond them is covered.
package lzma

import (
	"bytes"
	"fmt"
	"os"
	"strconv"
	"testing"
)

type b1Stats struct{ strings, parses, ops int }

func b1Lengths(maxLen int) []int {
	var out []int
	for _, l := range []int{1, 2, 3, 4, 9, 10, 17, 18, 272, 273} {
		if l <= maxLen {
			out = append(out, l)
		}
	}
	if maxLen > 4 && maxLen != 9 && maxLen != 10 && maxLen != 17 && maxLen != 18 && maxLen < 272 {
		out = append(out, maxLen)
	}
	return out
}

// all valid operations at position p of s, given rep0
func b1Ops(s []byte, p int, rep0 uint32) []operation {
	ops := []operation{lit{s[p]}}
	for dist := 1; dist <= p; dist++ {
		n := 0
		for p+n < len(s) && n < maxMatchLen && s[p+n-dist] == s[p+n] {
			n++
		}
		for _, l := range b1Lengths(n) {
			if l == 1 && uint32(dist-minDistance) != rep0 {
				continue
			}
			ops = append(ops, match{int64(dist), l})
		}
	}
	return ops
}

func b1Equal(t *testing.T, a, b *state) bool {
	if a.state != b.state || a.rep != b.rep {
		return false
	}
	if a.isMatch != b.isMatch || a.isRep != b.isRep || a.isRepG0 != b.isRepG0 || a.isRepG1 != b.isRepG1 || a.isRepG2 != b.isRepG2 || a.isRepG0Long != b.isRepG0Long {
		return false
	}
	for i, p := range a.litCodec.probs {
		if b.litCodec.probs[i] != p {
			return false
		}
	}
	var ba, bb bytes.Buffer
	fmt.Fprint(&ba, a.lenCodec, a.repLenCodec, a.distCodec)
	fmt.Fprint(&bb, b.lenCodec, b.repLenCodec, b.distCodec)
	return bytes.Equal(ba.Bytes(), bb.Bytes())
}

var b1es, b1ds *state

func b1RoundTrip(t *testing.T, props Properties, s []byte, ops []operation) {
	ht, err := newHashTable(4096, 4)
	if err != nil {
		t.Fatal(err)
	}
	ed, err := newEncoderDict(4096, 4096, ht)
	if err != nil {
		t.Fatal(err)
	}
	if _, err = ed.Write(s); err != nil {
		t.Fatalf("dict write: %v", err)
	}
	var out bytes.Buffer
	if b1es == nil || b1es.Properties != props {
		b1es, b1ds = newState(props), newState(props)
	}
	es, ds := b1es, b1ds
	es.Reset()
	ds.Reset()
	e, err := newEncoder(&out, es, ed, 0)
	if err != nil {
		t.Fatal(err)
	}
	for _, op := range ops {
		if err = e.writeOp(op); err != nil {
			t.Fatalf("VIOLATION-INPUT props=%v s=%q ops=%v: writeOp(%v): %v", props, s, ops, op, err)
		}
		ed.Discard(op.Len())
	}
	if err = e.re.Close(); err != nil {
		t.Fatalf("VIOLATION-INPUT props=%v s=%q ops=%v: range encoder close: %v", props, s, ops, err)
	}
	written := out.Len()
	dd, err := newDecoderDict(4096)
	if err != nil {
		t.Fatal(err)
	}
	src := bytes.NewReader(out.Bytes())
	d, err := newDecoder(src, ds, dd, -1)
	if err != nil {
		t.Fatalf("VIOLATION-INPUT props=%v s=%q ops=%v: newDecoder: %v", props, s, ops, err)
	}
	for i, want := range ops {
		got, err := d.readOp()
		if err != nil {
			t.Fatalf("VIOLATION-INPUT props=%v s=%q ops=%v: readOp #%d: %v", props, s, ops, i, err)
		}
		if got != want {
			t.Fatalf("VIOLATION-INPUT props=%v s=%q ops=%v: operation #%d decoded as %v, encoded %v", props, s, ops, i, got, want)
		}
		if err = d.apply(got); err != nil {
			t.Fatalf("VIOLATION-INPUT props=%v s=%q ops=%v: apply #%d: %v", props, s, ops, i, err)
		}
	}
	back := make([]byte, len(s)+1)
	n, _ := dd.Read(back)
	if !bytes.Equal(back[:n], s) {
		t.Fatalf("VIOLATION-INPUT props=%v s=%q ops=%v: decoded %q", props, s, ops, back[:n])
	}
	if !b1Equal(t, es, ds) {
		t.Fatalf("VIOLATION-INPUT props=%v s=%q ops=%v: coder states differ after the sequence", props, s, ops)
	}
	if src.Len() != 0 || written < 5 {
		t.Fatalf("VIOLATION-INPUT props=%v s=%q ops=%v: %d of %d bytes left unread", props, s, ops, src.Len(), written)
	}
}

func b1Parses(t *testing.T, props Properties, s []byte, maxParses int, st *b1Stats) {
	count := 0
	var rec func(p int, rep [4]uint32, acc []operation)
	rec = func(p int, rep [4]uint32, acc []operation) {
		if count >= maxParses {
			return
		}
		if p == len(s) {
			count++
			st.parses++
			st.ops += len(acc)
			b1RoundTrip(t, props, s, append([]operation{}, acc...))
			return
		}
		for _, op := range b1Ops(s, p, rep[0]) {
			nrep := rep
			if m, ok := op.(match); ok {
				// the rep-update rule of the format (independent of the code under test)
				d := uint32(m.distance - minDistance)
				g := 4
				for i := 0; i < 4; i++ {
					if rep[i] == d {
						g = i
						break
					}
				}
				switch g {
				case 0:
				case 1:
					nrep = [4]uint32{rep[1], rep[0], rep[2], rep[3]}
				case 2:
					nrep = [4]uint32{rep[2], rep[0], rep[1], rep[3]}
				case 3:
					nrep = [4]uint32{rep[3], rep[0], rep[1], rep[2]}
				default:
					nrep = [4]uint32{d, rep[0], rep[1], rep[2]}
				}
			}
			rec(p+op.Len(), nrep, append(acc, op))
		}
	}
	rec(0, [4]uint32{}, nil)
}

func TestStandinB1(t *testing.T) {
	maxLen, _ := strconv.Atoi(os.Getenv("B1_MAXLEN"))
	if maxLen == 0 {
		maxLen = 6
	}
	maxParses, _ := strconv.Atoi(os.Getenv("B1_MAXPARSES"))
	if maxParses == 0 {
		maxParses = 400
	}
	propSets := []Properties{{LC: 3, LP: 0, PB: 2}, {LC: 0, LP: 0, PB: 0}, {LC: 4, LP: 0, PB: 4}, {LC: 0, LP: 4, PB: 0}, {LC: 8, LP: 4, PB: 4}}
	alphabet := []byte{0x00, 0x7f, 0x80, 0xff}
	var st b1Stats
	for _, props := range propSets {
		// all strings over a 2-letter sub-alphabet up to maxLen, plus structured long strings
		for _, ab := range [][]byte{{alphabet[0], alphabet[3]}, {alphabet[1], alphabet[2]}} {
			for l := 1; l <= maxLen; l++ {
				for code := 0; code < 1<<uint(l); code++ {
					s := make([]byte, l)
					for i := range s {
						s[i] = ab[(code>>uint(i))&1]
					}
					st.strings++
					b1Parses(t, props, s, maxParses, &st)
				}
			}
		}
		for _, s := range [][]byte{
			bytes.Repeat([]byte{0x00}, 300),
			append(bytes.Repeat([]byte{0x41, 0x42}, 140), 0x43),
			append(append([]byte("abcdefgh"), bytes.Repeat([]byte{0xff}, 20)...), []byte("abcdefgh")...),
		} {
			st.strings++
			b1Parses(t, props, s, maxParses/4, &st)
		}
	}
	fmt.Printf("STANDIN-B1 bounded=true strings=%d parses=%d operations=%d maxlen=%d maxparses_per_string=%d property_sets=%d\n", st.strings, st.parses, st.ops, maxLen, maxParses, len(propSets))
}
