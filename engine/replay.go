package main

type replayResult struct {
	Confirmed bool
	Text      string
}

func tryReplay(eng *Engine, rep *obReport, dir string) replayResult {
	return replayResult{false, "not attempted (no replay harness for this function shape)"}
}
