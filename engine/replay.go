package main

// Replay of solver counterexamples on the real code: the entry state of the
// failing function is read back from the model (through get-value style
// equalities), rebuilt with in-package Go code, the real function is run
// through `go test -overlay` (nothing is written to the repository) and the
// contract clauses, compiled from the contract text to Go, are evaluated.

import (
	"bytes"
	"context"
	"encoding/json"
	"fmt"
	"go/types"
	"math/big"
	"os"
	"os/exec"
	"path/filepath"
	"sort"
	"strings"
	"time"

	"golang.org/x/tools/go/ssa"
)

type replayResult struct {
	Confirmed bool
	Text      string
}

const replayElems = 48

type gvReq struct {
	name string
	term *Term
}

type replayBuilder struct {
	x    *FnCtx
	eng  *Engine
	reqs []gvReq
	vals map[string]string
	pkg  *types.Package
	decl strings.Builder
	nvar int
	ok   bool
	why  string
}

func (b *replayBuilder) want(name string, t *Term) string {
	b.reqs = append(b.reqs, gvReq{name, t})
	return name
}

func parseSMTInt(v string) (*big.Int, bool) {
	v = strings.TrimSpace(v)
	if strings.HasPrefix(v, "#x") {
		n, ok := new(big.Int).SetString(v[2:], 16)
		return n, ok
	}
	if strings.HasPrefix(v, "#b") {
		n, ok := new(big.Int).SetString(v[2:], 2)
		return n, ok
	}
	if strings.HasPrefix(v, "( - ") || strings.HasPrefix(v, "(- ") {
		inner := strings.TrimSuffix(strings.TrimPrefix(strings.TrimPrefix(v, "( - "), "(- "), ")")
		n, ok := new(big.Int).SetString(strings.TrimSpace(inner), 10)
		if ok {
			n.Neg(n)
		}
		return n, ok
	}
	if strings.HasPrefix(v, "( _ bv") || strings.HasPrefix(v, "(_ bv") {
		f := strings.Fields(strings.Trim(v, "()"))
		if len(f) >= 2 {
			n, ok := new(big.Int).SetString(strings.TrimPrefix(f[1], "bv"), 10)
			return n, ok
		}
	}
	n, ok := new(big.Int).SetString(v, 10)
	return n, ok
}

func (b *replayBuilder) intVal(name string, t types.Type) (*big.Int, bool) {
	v, ok := b.vals[name]
	if !ok {
		return nil, false
	}
	n, ok := parseSMTInt(v)
	if !ok {
		return nil, false
	}
	if w, s, isI := intInfo(t); isI && s && n.Sign() >= 0 && n.BitLen() == w {
		n = toSigned(n, w) // bit-vector models print unsigned
	}
	return n, true
}

func typeStr(t types.Type, pkg *types.Package) string {
	return types.TypeString(t, func(p *types.Package) string {
		if p == pkg {
			return ""
		}
		return p.Name()
	})
}

// phase 1: register the terms whose values are needed; phase 2 (vals set): emit Go code.
// The same traversal is used for both, driven by b.vals == nil.

func (b *replayBuilder) scalarExpr(key string, t *Term, ty types.Type) string {
	if b.vals == nil {
		b.want(key, t)
		return ""
	}
	if isBool(ty) {
		if b.vals[key] == "true" {
			return "true"
		}
		return "false"
	}
	if _, _, ok := intInfo(ty); ok {
		n, ok := b.intVal(key, ty)
		if !ok {
			return "0"
		}
		return fmt.Sprintf("%s(%s)", typeStr(ty, b.pkg), n.String())
	}
	return ""
}

func (b *replayBuilder) sliceExpr(key string, sv SliceV, ty types.Type, h *Heap) string {
	x := b.x
	et := ty.Underlying().(*types.Slice).Elem()
	if _, _, ok := intInfo(et); !ok {
		if b.vals == nil {
			b.want(key+".len", x.toInt(sv.Len))
			return ""
		}
		n, ok := b.intVal(key+".len", types.Typ[types.Int])
		if !ok || n.Sign() < 0 || n.Cmp(big.NewInt(1<<16)) > 0 {
			return "nil"
		}
		return fmt.Sprintf("make(%s, %s)", typeStr(ty, b.pkg), n)
	}
	m := x.heapGet(h, "E."+elemKey(et), x.contentsSort(et))
	if b.vals == nil {
		b.want(key+".len", x.toInt(sv.Len))
		b.want(key+".arr", sv.Arr)
		for i := 0; i < replayElems; i++ {
			b.want(fmt.Sprintf("%s.e%d", key, i), x.sel(x.sel(m, sv.Arr), x.iadd(sv.Off, x.idx(int64(i)))))
		}
		return ""
	}
	n, ok := b.intVal(key+".len", types.Typ[types.Int])
	arr, ok2 := b.intVal(key+".arr", types.Typ[types.Int])
	if !ok || !ok2 || n.Sign() < 0 {
		return "nil"
	}
	if arr.Sign() == 0 {
		return "nil"
	}
	if n.Cmp(big.NewInt(1<<22)) > 0 {
		b.ok = false
		b.why = "model needs a slice of " + n.String() + " elements"
		return "nil"
	}
	var es []string
	for i := 0; i < replayElems && int64(i) < n.Int64(); i++ {
		v, ok := b.intVal(fmt.Sprintf("%s.e%d", key, i), et)
		if !ok {
			v = big.NewInt(0)
		}
		es = append(es, v.String())
	}
	b.nvar++
	name := fmt.Sprintf("s%d", b.nvar)
	fmt.Fprintf(&b.decl, "\t%s := make(%s, %s)\n\tcopy(%s, %s{%s})\n", name, typeStr(ty, b.pkg), n, name, typeStr(ty, b.pkg), strings.Join(es, ", "))
	return name
}

// structInit emits assignments initialising the fields of the Go expression `lhs` (a struct value)
// from the model object at ref.
func (b *replayBuilder) structInit(key, lhs string, ref *Term, st types.Type, h *Heap, depth int) {
	x := b.x
	l := layoutOf(st)
	for i := range l.Fields {
		fi := &l.Fields[i]
		fkey := key + "." + fi.Name
		flhs := lhs + "." + fi.Name
		if fi.Name == "_" {
			continue
		}
		switch u := fi.T.Underlying().(type) {
		case *types.Struct:
			b.structInit(fkey, flhs, x.refAdd(ref, fi.Off), fi.T, h, depth)
		case *types.Slice:
			sv, _ := x.loadField(h, ref, fi).(SliceV)
			e := b.sliceExpr(fkey, sv, fi.T, h)
			if b.vals != nil && e != "" {
				fmt.Fprintf(&b.decl, "\t%s = %s\n", flhs, e)
			}
		case *types.Array:
			if _, _, ok := intInfo(u.Elem()); ok && u.Len() <= replayElems {
				arr, _ := x.loadField(h, ref, fi).(*Term)
				if arr == nil {
					continue
				}
				for k := int64(0); k < u.Len(); k++ {
					ek := fmt.Sprintf("%s.a%d", fkey, k)
					if b.vals == nil {
						b.want(ek, x.sel(arr, x.idx(k)))
					} else if v, ok := b.intVal(ek, u.Elem()); ok && v.Sign() != 0 {
						fmt.Fprintf(&b.decl, "\t%s[%d] = %s(%s)\n", flhs, k, typeStr(u.Elem(), b.pkg), v)
					}
				}
			}
		case *types.Pointer:
			if isStruct(u.Elem()) && depth < 2 {
				pr, _ := x.loadField(h, ref, fi).(*Term)
				if pr == nil {
					continue
				}
				if b.vals == nil {
					b.want(fkey+".ref", pr)
					b.structInit(fkey, "", pr, u.Elem(), h, depth+1)
					continue
				}
				if v, ok := b.intVal(fkey+".ref", types.Typ[types.Int]); ok && v.Sign() != 0 {
					b.nvar++
					pv := fmt.Sprintf("o%d", b.nvar)
					fmt.Fprintf(&b.decl, "\t%s := &%s{}\n", pv, typeStr(u.Elem(), b.pkg))
					b.structInit(fkey, pv, pr, u.Elem(), h, depth+1)
					fmt.Fprintf(&b.decl, "\t%s = %s\n", flhs, pv)
				}
			}
		case *types.Interface, *types.Signature, *types.Map, *types.Chan:
			t, _ := x.loadField(h, ref, fi).(*Term)
			if t == nil {
				continue
			}
			if b.vals == nil {
				b.want(fkey+".ref", t)
			} else if rv, ok := b.intVal(fkey+".ref", types.Typ[types.Int]); !ok || rv.Sign() != 0 {
				b.ok = false
				b.why = "field " + fkey + " is a non-nil interface/function value (no scripted collaborator)"
			}
		default:
			if isBool(fi.T) || isIntType(fi.T) {
				t, _ := x.loadField(h, ref, fi).(*Term)
				if t == nil {
					continue
				}
				e := b.scalarExpr(fkey, t, fi.T)
				if b.vals != nil && e != "" && lhs != "" {
					fmt.Fprintf(&b.decl, "\t%s = %s\n", flhs, e)
				}
			}
		}
	}
}

// paramExpr returns the Go expression for parameter i (phase 2) or registers terms (phase 1).
func (b *replayBuilder) paramExpr(p *ssa.Parameter, v Value, h *Heap) string {
	key := "arg." + p.Name()
	t := p.Type()
	switch u := t.Underlying().(type) {
	case *types.Slice:
		sv, ok := v.(SliceV)
		if !ok {
			return "nil"
		}
		return b.sliceExpr(key, sv, t, h)
	case *types.Pointer:
		ref, ok := v.(*Term)
		if !ok {
			return "nil"
		}
		if isStruct(u.Elem()) {
			if b.vals == nil {
				b.want(key+".ref", ref)
				b.structInit(key, "", ref, u.Elem(), h, 0)
				return ""
			}
			if rv, ok := b.intVal(key+".ref", types.Typ[types.Int]); ok && rv.Sign() == 0 {
				return "nil"
			}
			b.nvar++
			pv := fmt.Sprintf("o%d", b.nvar)
			fmt.Fprintf(&b.decl, "\t%s := &%s{}\n", pv, typeStr(u.Elem(), b.pkg))
			b.structInit(key, pv, ref, u.Elem(), h, 0)
			return pv
		}
		if isScalar(u.Elem()) && (isBool(u.Elem()) || isIntType(u.Elem())) {
			m := b.x.heapGet(h, "C."+elemKey(u.Elem()), b.x.fieldMapSort(u.Elem()))
			e := b.scalarExpr(key+".val", b.x.sel(m, ref), u.Elem())
			if b.vals == nil {
				return ""
			}
			b.nvar++
			pv := fmt.Sprintf("c%d", b.nvar)
			fmt.Fprintf(&b.decl, "\t%s := new(%s)\n\t*%s = %s\n", pv, typeStr(u.Elem(), b.pkg), pv, e)
			return pv
		}
		return "nil"
	case *types.Struct:
		sv, ok := v.(StructV)
		if !ok {
			b.ok = false
			return ""
		}
		if b.vals == nil {
			b.structInit(key, "", sv.Ref, t, h, 0)
			return ""
		}
		b.nvar++
		pv := fmt.Sprintf("v%d", b.nvar)
		fmt.Fprintf(&b.decl, "\tvar %s %s\n", pv, typeStr(t, b.pkg))
		b.structInit(key, pv, sv.Ref, t, h, 0)
		return pv
	case *types.Array:
		if _, _, ok := intInfo(u.Elem()); ok && u.Len() <= replayElems {
			arr, _ := v.(*Term)
			if arr == nil {
				return typeStr(t, b.pkg) + "{}"
			}
			var es []string
			for k := int64(0); k < u.Len(); k++ {
				ek := fmt.Sprintf("%s.a%d", key, k)
				if b.vals == nil {
					b.want(ek, b.x.sel(arr, b.x.idx(k)))
				} else {
					vv, ok := b.intVal(ek, u.Elem())
					if !ok {
						vv = big.NewInt(0)
					}
					es = append(es, vv.String())
				}
			}
			return typeStr(t, b.pkg) + "{" + strings.Join(es, ", ") + "}"
		}
	case *types.Interface, *types.Signature, *types.Map, *types.Chan:
		// needs a scripted collaborator: only a nil value can be rebuilt
		ref, _ := v.(*Term)
		if ref == nil {
			b.ok = false
			b.why = "parameter " + p.Name() + " is an interface/function value"
			return ""
		}
		if b.vals == nil {
			b.want(key+".ref", ref)
			return ""
		}
		if rv, ok := b.intVal(key+".ref", types.Typ[types.Int]); !ok || rv.Sign() != 0 {
			b.ok = false
			b.why = "parameter " + p.Name() + " is a non-nil interface/function value (no scripted collaborator)"
		}
		return "nil"
	}
	if tt, ok := v.(*Term); ok && (isBool(t) || isIntType(t)) {
		return b.scalarExpr(key, tt, t)
	}
	if isString(t) {
		return `""`
	}
	b.ok = false
	b.why = "parameter " + p.Name() + " of type " + t.String() + " cannot be rebuilt"
	return ""
}

// ---------- contract clause -> Go ----------

type goGen struct {
	eng     *Engine
	pkg     *types.Package
	olds    []string // hoisted old() expressions
	specFns map[string]bool
	fail    string
}

func (g *goGen) expr(e *Expr, inOld bool) string {
	if g.fail != "" {
		return "false"
	}
	switch e.Kind {
	case "num":
		return e.Val.String()
	case "str":
		return fmt.Sprintf("%q", e.Name)
	case "ident":
		if strings.HasPrefix(e.Name, "$") {
			g.fail = "ghost state " + e.Name
			return "false"
		}
		return e.Name
	case "unary":
		return "(" + e.Name + g.expr(e.Args[0], inOld) + ")"
	case "binary":
		a, b := g.expr(e.Args[0], inOld), g.expr(e.Args[1], inOld)
		switch e.Name {
		case "==>":
			return "(!(" + a + ") || (" + b + "))"
		case "<==>":
			return "((" + a + ") == (" + b + "))"
		}
		return "(" + a + " " + e.Name + " " + b + ")"
	case "field":
		if e.Args[0].Kind == "ident" && (stdPkgAlias[e.Args[0].Name] != "" && e.Args[0].Name != "h" && e.Args[0].Name != "r") {
			return e.Args[0].Name + "." + e.Name
		}
		if strings.HasPrefix(e.Name, "$") {
			g.fail = "ghost field " + e.Name
			return "false"
		}
		return g.expr(e.Args[0], inOld) + "." + e.Name
	case "index":
		return g.expr(e.Args[0], inOld) + "[" + g.expr(e.Args[1], inOld) + "]"
	case "slice":
		s := g.expr(e.Args[0], inOld) + "["
		if e.Args[1] != nil {
			s += g.expr(e.Args[1], inOld)
		}
		s += ":"
		if e.Args[2] != nil {
			s += g.expr(e.Args[2], inOld)
		}
		return s + "]"
	case "forall", "exists":
		// only (lo <= i && i < hi) ==> body  /  lo <= i && i < hi && body
		if len(e.Vars) != 1 {
			g.fail = "multi-variable quantifier"
			return "false"
		}
		v := e.Vars[0]
		body := e.Args[0]
		var guard, rest *Expr
		if e.Kind == "forall" && body.Kind == "binary" && body.Name == "==>" {
			guard, rest = body.Args[0], body.Args[1]
		} else if e.Kind == "exists" && body.Kind == "binary" && body.Name == "&&" {
			guard, rest = body.Args[0], body.Args[1]
		} else {
			g.fail = "quantifier shape"
			return "false"
		}
		lo, hi, ok := rangeOf(guard, v.Name)
		if !ok {
			g.fail = "quantifier range"
			return "false"
		}
		kind := "govcForall"
		if e.Kind == "exists" {
			kind = "govcExists"
		}
		return fmt.Sprintf("%s(int64(%s), int64(%s), func(q int64) bool { %s := %s(q); _ = %s; return %s })", kind, g.expr(lo, inOld), g.expr(hi, inOld), v.Name, v.Type, v.Name, g.expr(rest, inOld))
	case "call":
		callee := e.Args[0]
		if callee.Kind != "ident" {
			g.fail = "call target"
			return "false"
		}
		name := callee.Name
		args := e.Args[1:]
		switch name {
		case "old":
			if inOld {
				return g.expr(args[0], true)
			}
			g.olds = append(g.olds, g.expr(args[0], true))
			return fmt.Sprintf("old%d", len(g.olds))
		case "len", "cap", "min", "max":
			var as []string
			for _, a := range args {
				as = append(as, g.expr(a, inOld))
			}
			return name + "(" + strings.Join(as, ", ") + ")"
		case "ite":
			return fmt.Sprintf("govcIte(%s, %s, %s)", g.expr(args[0], inOld), g.expr(args[1], inOld), g.expr(args[2], inOld))
		case "fresh", "typeis", "arr", "addr", "disjoint", "off", "ref", "elems", "modsentinel", "xzsentinel", "implements", "unboxed":
			g.fail = "builtin " + name
			return "false"
		}
		if strings.HasPrefix(name, "uf_") || strings.HasPrefix(name, "ufb_") {
			g.fail = "uninterpreted " + name
			return "false"
		}
		if _, ok := basicByName[name]; ok {
			return name + "(" + g.expr(args[0], inOld) + ")"
		}
		if fn, ok := g.eng.specs.Fns[name]; ok {
			g.specFns[fn.Name] = true
			var as []string
			for i, a := range args {
				ae := g.expr(a, inOld)
				if i < len(fn.Params) {
					if bt, ok := basicByName[fn.Params[i].Type]; ok && isIntType(bt) {
						ae = fn.Params[i].Type + "(" + ae + ")"
					}
				}
				as = append(as, ae)
			}
			return "spec_" + name + "(" + strings.Join(as, ", ") + ")"
		}
		g.fail = "unknown function " + name
		return "false"
	}
	g.fail = "expression kind " + e.Kind
	return "false"
}

// rangeOf recognises  lo <= v && v < hi  (also <=, giving hi+1).
func rangeOf(g *Expr, v string) (lo, hi *Expr, ok bool) {
	if g.Kind != "binary" || g.Name != "&&" {
		return nil, nil, false
	}
	a, b := g.Args[0], g.Args[1]
	if a.Kind == "binary" && a.Name == "&&" {
		return nil, nil, false
	}
	if a.Kind != "binary" || b.Kind != "binary" {
		return nil, nil, false
	}
	if a.Name == "<=" && a.Args[1].Kind == "ident" && a.Args[1].Name == v {
		lo = a.Args[0]
	} else {
		return nil, nil, false
	}
	if b.Args[0].Kind == "ident" && b.Args[0].Name == v {
		switch b.Name {
		case "<":
			hi = b.Args[1]
		case "<=":
			hi = &Expr{Kind: "binary", Name: "+", Args: []*Expr{b.Args[1], {Kind: "num", Val: big.NewInt(1)}}}
		default:
			return nil, nil, false
		}
		return lo, hi, true
	}
	return nil, nil, false
}

func (g *goGen) specFnSource() string {
	var sb strings.Builder
	done := map[string]bool{}
	for {
		progress := false
		for _, name := range sortedKeys(g.specFns) {
			if done[name] {
				continue
			}
			done[name] = true
			progress = true
			fn := g.eng.specs.Fns[name]
			var ps []string
			for _, p := range fn.Params {
				ps = append(ps, p.Name+" "+p.Type)
			}
			rt := fn.ResType
			if rt == "" {
				rt = "bool"
			}
			fmt.Fprintf(&sb, "func spec_%s(%s) %s { return %s }\n", name, strings.Join(ps, ", "), rt, g.expr(fn.Body, true))
		}
		if !progress {
			break
		}
	}
	return sb.String()
}

// ---------- driver ----------

func tryReplay(eng *Engine, rep *obReport, dir string) replayResult {
	ob := rep.Ob
	x := ob.fn
	if x == nil || x.entry == nil || ob.Result == nil || ob.Result.Status != "sat" {
		return replayResult{false, "not attempted (no model)"}
	}
	fn := x.fn
	if fn.Pkg == nil || !eng.inModule(fn) || fn.Parent() != nil {
		return replayResult{false, "not attempted (function is not a package-level function of the module)"}
	}
	b := &replayBuilder{x: x, eng: eng, pkg: fn.Pkg.Pkg, ok: true}
	h := x.entry.heap
	// entry parameter values: re-create as in verifyBody (same names => same terms)
	st := &State{pc: x.tb.True(), cells: map[*ssa.Alloc]Value{}, heap: &Heap{m: map[string]*Term{}, A: x.tb.Var("A$0", IntSort)}, ghost: map[string]*Term{}}
	var pvals []Value
	for i, p := range fn.Params {
		pvals = append(pvals, x.paramValue(st, p, i == 0 && fn.Signature.Recv() != nil))
	}
	for i, p := range fn.Params {
		b.paramExpr(p, pvals[i], h)
	}
	if !b.ok {
		return replayResult{false, "not attempted (" + b.why + ")"}
	}
	// second solver call: original query plus equalities naming the wanted terms
	asserts := x.relevantAxioms(ob.Asserts)
	asserts = append(asserts, ob.Asserts...)
	asserts = x.tb.instantiate(asserts, 2)
	asserts = append(x.relevantAxioms(asserts), asserts...)
	for i, r := range b.reqs {
		gv := x.tb.Var(fmt.Sprintf("gv!%d", i), r.term.Sort)
		asserts = append(asserts, x.tb.Eq(gv, r.term))
	}
	sr := Solve(x.tb.Script(asserts, true, "ALL"), 20, ob.Result.Solver)
	if sr.Status != "sat" {
		sr = Solve(x.tb.Script(asserts, true, "ALL"), 20, "")
	}
	if sr.Status != "sat" {
		return replayResult{false, "model extraction query was not sat (" + sr.Status + ")"}
	}
	b.vals = map[string]string{}
	for i, r := range b.reqs {
		if v, ok := sr.Model[fmt.Sprintf("gv!%d", i)]; ok {
			b.vals[r.name] = v
		}
	}
	var args []string
	for i, p := range fn.Params {
		args = append(args, b.paramExpr(p, pvals[i], h))
	}
	if !b.ok {
		return replayResult{false, "not attempted (" + b.why + ")"}
	}
	// the call: first with every translatable clause, then (if that does not build) with the failing clause only
	res := runReplay(eng, rep, dir, b, fn, args, "")
	if !res.ran && ob.Kind == "post" && ob.Goal != "" {
		res2 := runReplay(eng, rep, dir, b, fn, args, ob.Goal)
		if res2.ran {
			res = res2
		}
	}
	return replayResult{res.confirmed, res.text}
}

type replayRun struct {
	ran       bool
	confirmed bool
	text      string
}

func runReplay(eng *Engine, rep *obReport, dir string, b *replayBuilder, fn *ssa.Function, args []string, onlyClause string) replayRun {
	ob := rep.Ob
	x := ob.fn
	ctr := x.contract
	gg := &goGen{eng: eng, pkg: fn.Pkg.Pkg, specFns: map[string]bool{}}
	_, resNames := x.paramBindings(fn.Signature, nil, fn, nil)
	var checks []string
	var clauseSrc []string
	for _, en := range append(append([]Clause{}, ctr.Ensures...), ctr.Checks...) {
		if onlyClause != "" && en.Src != onlyClause {
			continue
		}
		save := *gg
		gg.fail = ""
		s := gg.expr(en.E, false)
		if gg.fail != "" {
			gg.olds = save.olds
			gg.fail = ""
			continue
		}
		checks = append(checks, s)
		clauseSrc = append(clauseSrc, en.Src)
	}
	var src strings.Builder
	fmt.Fprintf(&src, "//go:build go1.18\n\npackage %s\n\nimport (\n\t\"fmt\"\n\t\"io\"\n\t\"testing\"\n)\n\nvar _ = io.EOF\n\n", fn.Pkg.Pkg.Name())
	src.WriteString("func govcIte[T any](c bool, a, b T) T { if c { return a }; return b }\n")
	src.WriteString("func govcForall(lo, hi int64, f func(int64) bool) bool { for i := lo; i < hi && i < lo+4096; i++ { if !f(i) { return false } }; return true }\n")
	src.WriteString("func govcExists(lo, hi int64, f func(int64) bool) bool { for i := lo; i < hi && i < lo+4096; i++ { if f(i) { return true } }; return false }\n")
	specSrc := gg.specFnSource()
	src.WriteString(specSrc)
	src.WriteString("\nfunc TestGovcReplay(govcT *testing.T) {\n\t_ = govcT\n")
	src.WriteString(b.decl.String())
	// bind parameter names
	for i, p := range fn.Params {
		name := p.Name()
		if name == "" || name == "_" {
			name = fmt.Sprintf("arg%d", i)
		}
		fmt.Fprintf(&src, "\t%s := %s\n\t_ = %s\n", name, castNil(args[i], p.Type(), fn.Pkg.Pkg), name)
	}
	for i, o := range gg.olds {
		fmt.Fprintf(&src, "\told%d := %s\n\t_ = old%d\n", i+1, o, i+1)
	}
	src.WriteString("\tdefer func() {\n\t\tif r := recover(); r != nil {\n\t\t\tfmt.Printf(\"GOVC-REPLAY: PANIC %v\\n\", r)\n\t\t}\n\t}()\n")
	call := ""
	var argNames []string
	for i, p := range fn.Params {
		name := p.Name()
		if name == "" || name == "_" {
			name = fmt.Sprintf("arg%d", i)
		}
		argNames = append(argNames, name)
	}
	if fn.Signature.Recv() != nil {
		call = argNames[0] + "." + fn.Name() + "(" + strings.Join(argNames[1:], ", ") + ")"
	} else {
		call = fn.Name() + "(" + strings.Join(argNames, ", ") + ")"
	}
	if len(resNames) > 0 {
		// avoid clashes between result and parameter names
		var lhs []string
		for _, rn := range resNames {
			lhs = append(lhs, rn)
		}
		fmt.Fprintf(&src, "\tvar (\n")
		for k, rn := range lhs {
			fmt.Fprintf(&src, "\t\t%s %s\n", rn, typeStr(fn.Signature.Results().At(k).Type(), fn.Pkg.Pkg))
		}
		fmt.Fprintf(&src, "\t)\n\t%s = %s\n", strings.Join(lhs, ", "), call)
		for _, rn := range lhs {
			fmt.Fprintf(&src, "\t_ = %s\n", rn)
		}
		if len(lhs) == 1 {
			fmt.Fprintf(&src, "\tresult := %s\n\t_ = result\n", lhs[0])
		}
	} else {
		fmt.Fprintf(&src, "\t%s\n", call)
	}
	for i, c := range checks {
		fmt.Fprintf(&src, "\tif !(%s) {\n\t\tfmt.Printf(\"GOVC-REPLAY: VIOLATED clause %%q\\n\", %q)\n\t}\n", c, clauseSrc[i])
	}
	src.WriteString("\tfmt.Println(\"GOVC-REPLAY: DONE\")\n}\n")

	// write and run
	pkgDir := filepath.Dir(eng.prog.Fset.Position(fn.Pos()).Filename)
	testFile := filepath.Join(dir, sanitize(rep.Fn+"_"+ob.Name)+"_replay_test.go")
	os.WriteFile(testFile, []byte(src.String()), 0644)
	ov := map[string]map[string]string{"Replace": {filepath.Join(pkgDir, "zz_govc_replay_test.go"): testFile}}
	ovData, _ := json.Marshal(ov)
	ovFile := testFile + ".overlay.json"
	os.WriteFile(ovFile, ovData, 0644)
	ctx, cancel := context.WithTimeout(context.Background(), 90*time.Second)
	defer cancel()
	cmd := exec.CommandContext(ctx, "bash", "-c", fmt.Sprintf("ulimit -v 8000000; cd %q && go test -mod=mod -overlay %q -vet=off -v -count=1 -timeout 60s -run '^TestGovcReplay$' .", pkgDir, ovFile))
	cmd.Env = append(os.Environ(), "GOFLAGS=-mod=mod", "GOPROXY=off", "GOSUMDB=off", "GOTOOLCHAIN=local")
	var out bytes.Buffer
	cmd.Stdout = &out
	cmd.Stderr = &out
	cmd.Run()
	o := out.String()
	var lines []string
	for _, l := range strings.Split(o, "\n") {
		if strings.HasPrefix(l, "GOVC-REPLAY:") {
			lines = append(lines, l)
		}
	}
	text := fmt.Sprintf("replay test: %s\ninput (from the model):\n%s\noutput:\n%s\n", testFile, b.decl.String()+"  args: "+strings.Join(args, ", "), strings.Join(lines, "\n"))
	confirmed := false
	for _, l := range lines {
		if strings.Contains(l, "PANIC") {
			switch ob.Kind {
			case "bounds", "slice", "nil", "unreachable", "div", "assert-type", "makeslice":
				confirmed = true
			}
		}
		if strings.Contains(l, "VIOLATED") {
			confirmed = true
		}
	}
	if len(lines) == 0 {
		text += "the replay test did not build or run:\n" + firstLines(o, 12) + "\n"
	}
	return replayRun{len(lines) > 0, confirmed, text}
}

func castNil(e string, t types.Type, pkg *types.Package) string {
	if e == "nil" {
		return fmt.Sprintf("%s(nil)", "("+typeStr(t, pkg)+")")
	}
	return e
}

var _ = sort.Strings
