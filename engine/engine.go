package main

// Loading, per-function verification driver, parallel discharge.

import (
	"fmt"
	"go/token"
	"go/types"
	"os"
	"path/filepath"
	"runtime/debug"
	"sort"
	"strings"
	"sync"
	"time"

	"golang.org/x/tools/go/packages"
	"golang.org/x/tools/go/ssa"
	"golang.org/x/tools/go/ssa/ssautil"
)

const modulePath = "github.com/ulikunitz/xz"

type Engine struct {
	prog           *ssa.Program
	pkgs           []*packages.Package
	specs          *Specs
	fnByKey        map[string]*ssa.Function
	strIDs         map[string]int64
	funcIDs        map[*ssa.Function]int64
	globalIDs      map[*ssa.Global]int64
	typeTags       map[string]int64
	qctr           int
	sentinels      map[*ssa.Global]int64
	storedGlobals  map[*ssa.Global][]string // global -> functions (non-init) that store to it
	constMapKeys   map[*ssa.Global][]*ssa.Const // integer-keyed map globals built once in init and only ever looked up
	namedTypes     []types.Type
	repo           string
	loadSecs       float64
	globalStoreLog map[string][]string
	curProp        string
	crossCheck     bool // thorough tier: every unsat answer is re-asked from a second solver
	globalInits    map[*ssa.Global]*globalInit
}

func NewEngine(repo string, specDir string) (*Engine, error) {
	start := time.Now()
	cfg := &packages.Config{Mode: packages.LoadAllSyntax, Dir: repo, BuildFlags: []string{"-tags=verif"},
		Env: append(os.Environ(), "GOFLAGS=-mod=mod", "GOPROXY=off", "GOSUMDB=off", "GOTOOLCHAIN=local")}
	pkgs, err := packages.Load(cfg, "./...")
	if err != nil {
		return nil, err
	}
	var errs []string
	packages.Visit(pkgs, nil, func(p *packages.Package) {
		for _, e := range p.Errors {
			errs = append(errs, e.Error())
		}
	})
	if len(errs) > 0 {
		return nil, fmt.Errorf("package load errors:\n%s", strings.Join(errs, "\n"))
	}
	prog, _ := ssautil.AllPackages(pkgs, ssa.NaiveForm|ssa.GlobalDebug)
	prog.Build()
	e := &Engine{prog: prog, pkgs: pkgs, specs: NewSpecs(), fnByKey: map[string]*ssa.Function{},
		strIDs: map[string]int64{}, funcIDs: map[*ssa.Function]int64{}, globalIDs: map[*ssa.Global]int64{},
		typeTags: map[string]int64{}, sentinels: map[*ssa.Global]int64{}, storedGlobals: map[*ssa.Global][]string{}, constMapKeys: map[*ssa.Global][]*ssa.Const{},
		repo: repo, globalStoreLog: map[string][]string{}}
	for fn := range ssautil.AllFunctions(prog) {
		if fn.Synthetic != "" && !strings.HasPrefix(fn.Synthetic, "package initializer") {
			continue
		}
		e.fnByKey[funcKey(fn)] = fn
	}
	e.scanGlobals()
	e.computeGlobalInits()
	// contract files in the repository (behind the build tag) and spec files
	for _, p := range pkgs {
		if len(p.GoFiles) == 0 {
			continue
		}
		dir := filepath.Dir(p.GoFiles[0])
		f := filepath.Join(dir, "zz_contracts_verif.go")
		if _, err := os.Stat(f); err == nil {
			if err := e.specs.LoadFile(f, p.PkgPath); err != nil {
				return nil, err
			}
		}
	}
	specFiles, _ := filepath.Glob(filepath.Join(specDir, "*.spec"))
	sort.Strings(specFiles)
	for _, f := range specFiles {
		if err := e.specs.LoadFile(f, modulePath); err != nil {
			return nil, err
		}
	}
	e.loadSecs = time.Since(start).Seconds()
	return e, nil
}

// clauseActive: a clause restricted to properties ("ensures [C01] ...") is an obligation of, and an
// assumption at call sites under, those properties only; the developer commands (no current
// property) see every clause.
func (e *Engine) clauseActive(c Clause) bool {
	if len(c.Props) == 0 || e.curProp == "" {
		return true
	}
	for _, p := range c.Props {
		if p == e.curProp {
			return true
		}
	}
	return false
}

func (e *Engine) inModule(f *ssa.Function) bool {
	p := pkgOf(f)
	return p != nil && strings.HasPrefix(p.Path(), modulePath)
}

// noEffect: calls abstracted as having no effect on program state (DESIGN 2.3).
func (e *Engine) noEffect(key string) bool {
	for _, p := range []string{"fmt.", modulePath + "/internal/xlog.", "log.", "runtime/pprof."} {
		if strings.HasPrefix(key, p) {
			return true
		}
	}
	if strings.HasSuffix(key, ".String") || strings.HasSuffix(key, ".Error") {
		return true
	}
	return false
}

func (e *Engine) scanGlobals() {
	var errGlobals []*ssa.Global
	for _, p := range e.prog.AllPackages() {
		for _, m := range p.Members {
			g, ok := m.(*ssa.Global)
			if !ok {
				continue
			}
			et := derefType(g.Type())
			if types.Identical(et, types.Universe.Lookup("error").Type()) {
				errGlobals = append(errGlobals, g)
			}
		}
	}
	sort.Slice(errGlobals, func(i, j int) bool {
		return errGlobals[i].Pkg.Pkg.Path()+"."+errGlobals[i].Name() < errGlobals[j].Pkg.Pkg.Path()+"."+errGlobals[j].Name()
	})
	for fn := range ssautil.AllFunctions(e.prog) {
		if fn.Name() == "init" || strings.HasPrefix(fn.Name(), "init#") {
			continue
		}
		for _, b := range fn.Blocks {
			for _, in := range b.Instrs {
				if s, ok := in.(*ssa.Store); ok {
					if g, ok := s.Addr.(*ssa.Global); ok {
						e.storedGlobals[g] = append(e.storedGlobals[g], funcKey(fn))
					}
				}
			}
		}
	}
	e.scanConstMaps()
	// standard-library sentinels get ids 1..999, module-private ones 1000..1999
	id, mid, lid := int64(0), int64(999), int64(1499)
	for _, g := range errGlobals {
		if len(e.storedGlobals[g]) > 0 {
			continue
		}
		if g.Pkg.Pkg.Path() == modulePath {
			mid++
			e.sentinels[g] = mid
		} else if strings.HasPrefix(g.Pkg.Pkg.Path(), modulePath) {
			lid++
			e.sentinels[g] = lid
		} else {
			id++
			e.sentinels[g] = id
		}
	}
}

func (e *Engine) noteGlobalStore(g *ssa.Global, fn string) {
	k := g.Pkg.Pkg.Path() + "." + g.Name()
	e.globalStoreLog[k] = append(e.globalStoreLog[k], fn)
}

func (e *Engine) constGlobal(x *FnCtx, g *ssa.Global) (Value, bool) {
	if id, ok := e.sentinels[g]; ok {
		return x.tb.IntC(id), true
	}
	return nil, false
}

func (e *Engine) allNamedTypes() []types.Type {
	if e.namedTypes != nil {
		return e.namedTypes
	}
	for _, p := range e.prog.AllPackages() {
		if !strings.HasPrefix(p.Pkg.Path(), modulePath) {
			continue
		}
		for _, m := range p.Members {
			if t, ok := m.(*ssa.Type); ok {
				e.namedTypes = append(e.namedTypes, t.Type())
			}
		}
	}
	sort.Slice(e.namedTypes, func(i, j int) bool { return typeKey(e.namedTypes[i]) < typeKey(e.namedTypes[j]) })
	return e.namedTypes
}

// openInterface: implementations outside the module are possible.
func (e *Engine) openInterface(t types.Type) bool {
	n, ok := t.(*types.Named)
	if !ok || n.Obj().Pkg() == nil {
		return true
	}
	return !strings.HasPrefix(n.Obj().Pkg().Path(), modulePath) || n.Obj().Exported()
}

// ---------- verification of one function ----------

type FnResult struct {
	Key     string
	Mode    string
	Obs     []*Obligation
	Errs    []string
	Abstr   map[string]int
	Assumed []string
	Inlined []string
	Seconds float64
	NoBody  bool
	tb      *TB
	ctx     *FnCtx
}

func (e *Engine) newFnCtx(fn *ssa.Function, ctr *Contract) *FnCtx {
	x := &FnCtx{eng: e, tb: NewTB(), fn: fn, key: funcKey(fn), contract: ctr, heapSorts: map[string]*Sort{},
		axiomSeen: map[int]bool{}, bits: map[int]int{}, tz: map[int]int{}, abstr: map[string]int{},
		selMemo: map[[2]int]*Term{}, madeTypes: map[string]types.Type{}, calleeUse: map[string]int{}, usedAssumed: map[string]bool{}, usedInlined: map[string]bool{}}
	x.bv = ctr != nil && ctr.Mode == "bv"
	return x
}

const minEntryA = 1 << 22

func (e *Engine) VerifyFunction(key string) *FnResult {
	start := time.Now()
	ctr := e.specs.Contracts[key]
	fn := e.fnByKey[key]
	res := &FnResult{Key: key}
	if ctr != nil {
		res.Mode = ctr.Mode
	}
	if fn == nil || len(fn.Blocks) == 0 {
		res.Errs = append(res.Errs, "function not found in the current source: "+key)
		return res
	}
	if ctr == nil {
		ctr = &Contract{Key: key, Mode: "int", Loops: map[int]*LoopSpec{}, HasMod: true,
			Modifies: []*Expr{{Kind: "ident", Name: "everything"}}}
		res.Mode = "int"
	}
	if ctr.NoBody || ctr.Assumed {
		res.NoBody = true
		return res
	}
	x := e.newFnCtx(fn, ctr)
	res.ctx = x
	res.tb = x.tb
	func() {
		defer func() {
			if r := recover(); r != nil {
				res.Errs = append(res.Errs, fmt.Sprintf("engine panic: %v (last contract evaluation error: %s)", r, x.lastEvalErr))
				if os.Getenv("GOVC_DEBUG") != "" {
					fmt.Fprintf(os.Stderr, "%s\n", debug.Stack())
				}
			}
		}()
		x.verifyBody()
	}()
	res.Obs = x.obs
	res.Errs = append(res.Errs, x.errs...)
	res.Abstr = x.abstr
	res.Assumed = sortedKeys(x.usedAssumed)
	res.Inlined = sortedKeys(x.usedInlined)
	res.Seconds = time.Since(start).Seconds()
	return res
}

func (x *FnCtx) verifyBody() {
	tb := x.tb
	fn := x.fn
	ctr := x.contract
	a0 := tb.Var("A$0", IntSort)
	st := &State{pc: tb.Le(tb.IntC(minEntryA), a0), cells: map[*ssa.Alloc]Value{}, heap: &Heap{m: map[string]*Term{}, A: a0}, ghost: map[string]*Term{}}
	fr := &Frame{fn: fn, ctr: ctr}
	// parameters
	for i, p := range fn.Params {
		v := x.paramValue(st, p, i == 0 && fn.Signature.Recv() != nil)
		fr.params = append(fr.params, v)
	}
	// captured variables (closure verified on its own): each is a pointer to its own live cell
	var fvs []*Term
	for _, fv := range fn.FreeVars {
		if _, ok := fv.Type().Underlying().(*types.Pointer); !ok {
			fr.binds = append(fr.binds, UnknownV{"free variable " + fv.Name()})
			continue
		}
		v := tb.Var("fv."+fv.Name(), IntSort)
		st.pc = tb.And(st.pc, tb.Le(tb.IntC(1), v), tb.Lt(v, st.heap.A))
		for _, o := range fvs {
			st.pc = tb.And(st.pc, tb.Ne(v, o))
		}
		fvs = append(fvs, v)
		fr.binds = append(fr.binds, v)
	}
	entry := st.Clone()
	fr.entry = entry
	x.entry = entry
	params := x.frameParams(fr)
	_, resNames := x.paramBindings(fn.Signature, nil, fn, nil)
	ec := &EvalCtx{x: x, fn: fn, pkg: pkgOf(fn), cur: st, old: entry, params: params, oldA: entry.heap.A}
	for i, rq := range ctr.Requires {
		if !x.eng.clauseActive(rq) {
			continue
		}
		g, facts := ec.boolWithFacts(rq.E)
		if ec.err != nil {
			x.errs = append(x.errs, fmt.Sprintf("requires#%d: %v", i+1, ec.err))
			ec.err = nil
			continue
		}
		st.pc = tb.And(st.pc, g, facts)
	}
	entry.pc = st.pc
	x.coverOb("cover/requires", st, tb.True())
	rets := x.run(fr, st)
	// modifies items evaluated in the entry state
	mec := &EvalCtx{x: x, fn: fn, pkg: pkgOf(fn), cur: entry, old: entry, params: params, oldA: entry.heap.A}
	var items []modItem
	if ctr.HasMod {
		items = x.resolveModifies(ctr.Modifies, mec, "modifies")
	}
	rs := fn.Signature.Results()
	var retPCs []*Term
	for _, r := range rets {
		retPCs = append(retPCs, r.st.pc)
		var rtvs []TV
		for k, v := range r.results {
			rtvs = append(rtvs, TV{V: v, T: rs.At(k).Type()})
		}
		pc := &EvalCtx{x: x, fn: fn, pkg: pkgOf(fn), cur: r.st, old: entry, params: params, results: rtvs, resNames: resNames, oldA: entry.heap.A}
		for i, en := range ctr.Ensures {
			if !x.eng.clauseActive(en) {
				continue
			}
			g, facts := pc.boolWithFacts(en.E)
			if pc.err != nil {
				x.errs = append(x.errs, fmt.Sprintf("ensures#%d: %v", i+1, pc.err))
				pc.err = nil
				continue
			}
			r.st.pc = tb.And(r.st.pc, facts)
			x.addOb("post", fmt.Sprintf("post#%d@ret%d", i+1, r.ord), r.st, g, false, en.Src)
		}
		// callee-side checks may mention the final values of locals
		lc := &EvalCtx{x: x, fn: fn, pkg: pkgOf(fn), cur: r.st, old: entry, params: params, results: rtvs, resNames: resNames, oldA: entry.heap.A, frame: fr, paramsFirst: true}
		for i, en := range ctr.Checks {
			if !x.eng.clauseActive(en) {
				continue
			}
			g := lc.boolTerm(en.E)
			if lc.err != nil {
				x.errs = append(x.errs, fmt.Sprintf("checks#%d: %v", i+1, lc.err))
				lc.err = nil
				continue
			}
			x.addOb("post", fmt.Sprintf("check#%d@ret%d", i+1, r.ord), r.st, g, false, en.Src)
		}
		x.frameObligations(fmt.Sprintf("ret%d", r.ord), entry, r.st, items)
	}
	if len(rets) > 0 {
		all := &State{pc: tb.Or(retPCs...)}
		x.coverOb("cover/return", all, tb.True())
		// antecedents of implications must be reachable at some return
		for i, en := range ctr.Ensures {
			if en.E.Kind == "binary" && en.E.Name == "==>" && x.eng.clauseActive(en) {
				var cs []*Term
				for _, r := range rets {
					var rtvs []TV
					for k, v := range r.results {
						rtvs = append(rtvs, TV{V: v, T: rs.At(k).Type()})
					}
					pc := &EvalCtx{x: x, fn: fn, pkg: pkgOf(fn), cur: r.st, old: entry, params: params, results: rtvs, resNames: resNames, oldA: entry.heap.A}
					a := pc.boolTerm(en.E.Args[0])
					if pc.err != nil {
						continue
					}
					cs = append(cs, tb.And(r.st.pc, a))
				}
				x.coverOb(fmt.Sprintf("cover/post#%d", i+1), &State{pc: tb.True()}, tb.Or(cs...))
			}
		}
	}
}

func (x *FnCtx) paramValue(st *State, p *ssa.Parameter, isRecv bool) Value {
	tb := x.tb
	t := p.Type()
	name := "p." + p.Name()
	switch u := t.Underlying().(type) {
	case *types.Struct:
		r := x.alloc(st.heap, tb.IntC(layoutOf(t).Size))
		return StructV{H: st.heap, Ref: r, T: t}
	case *types.Array:
		if isStruct(u.Elem()) {
			return UnknownV{"array-of-struct parameter"}
		}
		return tb.Var(name, x.sortOf(t))
	case *types.Slice:
		is := x.intSort()
		s := SliceV{Arr: tb.Var(name+".arr", IntSort), Off: tb.Var(name+".off", is), Len: tb.Var(name+".len", is), Cap: tb.Var(name+".cap", is)}
		st.pc = tb.And(st.pc, x.typeInv(s, t, st.heap))
		return s
	case *types.Pointer:
		v := tb.Var(name, IntSort)
		lo := int64(0)
		if isRecv {
			lo = 1
		}
		st.pc = tb.And(st.pc, tb.Le(tb.IntC(lo), v), tb.Lt(v, st.heap.A))
		if ext := pointeeExtent(t); ext > 1 {
			st.pc = tb.And(st.pc, tb.Implies(tb.Ne(v, tb.IntC(0)), tb.Le(tb.Add(v, tb.IntC(ext)), st.heap.A)))
		}
		if isStruct(u.Elem()) {
			st.pc = tb.And(st.pc, tb.Implies(tb.Ne(v, tb.IntC(0)), tb.Le(tb.IntC(minEntryA/2), v)))
		}
		return v
	}
	v := tb.Var(name, x.sortOf(t))
	st.pc = tb.And(st.pc, x.typeInv(v, t, st.heap))
	if _, isI := t.Underlying().(*types.Interface); isI && v.Sort == IntSort {
		st.pc = tb.And(st.pc, tb.Implies(tb.Ne(v, tb.IntC(0)), tb.UF("implements."+typeKey(t), BoolSort, x.typeOf(v))))
	}
	if w, s, ok := intInfo(t); ok && !s && !x.bv {
		x.setBits(v, w)
	}
	return v
}

// ---------- discharge ----------

type workItem struct {
	ob      *Obligation
	script  string
	relaxed string // same query with universally quantified hypotheses dropped (sound weakening); tried first
	instq   string // universally quantified hypotheses replaced by three rounds of ground instances (sound weakening, quantifier-free)
	sliced  string // hypotheses restricted to the cone of influence of the goal (sound weakening)
}

func (e *Engine) Discharge(results []*FnResult, timeoutS int, workers int) {
	var items []workItem
	for _, r := range results {
		if r.ctx == nil {
			continue
		}
		for _, ob := range r.Obs {
			if ob.Trivial {
				continue
			}
			asserts := r.ctx.relevantAxioms(ob.Asserts)
			asserts = append(asserts, ob.Asserts...)
			if os.Getenv("GOVC_DEBUG") != "" {
				fmt.Fprintln(os.Stderr, "== ob", ob.Name)
			}
			asserts = r.tb.instantiate(asserts, 2)
			asserts = append(r.ctx.relevantAxioms(asserts), asserts...)
			hc := r.tb.hashCongruence(asserts)
			asserts = append(asserts, hc...)
			r.tb.dropCaAxioms = ob.Cover
			it := workItem{ob: ob, script: r.tb.Script(asserts, true, "ALL")}
			r.tb.dropCaAxioms = false
			if !ob.Cover && len(ob.Asserts) == 2 {
				sl := r.tb.sliceHyps(ob.Asserts[0], ob.Asserts[1])
				if sl != nil {
					full := []*Term{sl, ob.Asserts[1]}
					full = r.tb.instantiate(append(r.ctx.relevantAxioms(full), full...), 2)
					full = append(r.ctx.relevantAxioms(full), full...)
					full = append(full, r.tb.hashCongruence(full)...)
					it.sliced = r.tb.Script(full, false, "ALL")
				}
				if hasQuant(ob.Asserts[0]) {
					// hypotheses (path condition) without their quantified conjuncts; the negated goal is kept
					base := ob.Asserts[0]
					if sl != nil {
						base = sl
					}
					rel := []*Term{r.tb.dropForalls(base, map[int]*Term{}), ob.Asserts[1]}
					rel = append(r.ctx.relevantAxioms(rel), rel...)
					rel = append(rel, r.tb.hashCongruence(rel)...)
					it.relaxed = r.tb.Script(rel, false, "ALL")
					// instances only: avoids the matching loops of nested heap reads (p[l[i]]) in the solver
					iq := r.tb.instantiate(append(r.ctx.relevantAxioms(ob.Asserts), ob.Asserts...), 3)
					var qf []*Term
					for _, a := range iq {
						qf = append(qf, r.tb.dropForalls(a, map[int]*Term{}))
					}
					qf = append(r.ctx.relevantAxioms(qf), qf...)
					qf = append(qf, r.tb.hashCongruence(qf)...)
					if s := r.tb.Script(qf, false, "ALL"); !hasQuantText(s) {
						it.instq = s
					}
				}
			}
			items = append(items, it)
		}
	}
	var wg sync.WaitGroup
	ch := make(chan workItem)
	for w := 0; w < workers; w++ {
		wg.Add(1)
		go func() {
			defer wg.Done()
			for it := range ch {
				var sr SolverResult
				if it.relaxed != "" {
					sr = Solve(it.relaxed, maxInt(2, timeoutS/3), "z3-new")
					if sr.Status != "unsat" {
						sr = SolverResult{Status: "unknown"}
					}
				}
				if sr.Status != "unsat" && it.instq != "" {
					sr = Solve(it.instq, maxInt(3, timeoutS/2), "z3-new")
					if sr.Status != "unsat" {
						sr = SolverResult{Status: "unknown"}
					}
				}
				if sr.Status != "unsat" && it.sliced != "" {
					sr = Solve(it.sliced, maxInt(3, timeoutS/2), "z3-new")
					if sr.Status != "unsat" {
						sr = SolverResult{Status: "unknown"}
					}
				}
				if sr.Status != "unsat" {
					sr = Solve(it.script, timeoutS, "z3-new")
				}
				if sr.Status == "unknown" {
					sr2 := Solve(it.script, timeoutS*2, "")
					sr2.Seconds += sr.Seconds
					if sr2.Status == "unknown" {
						sr2.Output = sr.Output + "\n" + sr2.Output
					}
					sr = sr2
				}
				ob := it.ob
				if e.crossCheck && !ob.Cover && sr.Status == "unsat" {
					// an independent second opinion on the full query
					second := "cvc5"
					if hasQuantText(it.script) {
						second = "z3"
					}
					if sr.Solver == second {
						second = "z3-new"
					}
					sr2 := Solve(it.script, maxInt(10, timeoutS/2), second)
					ob.Second = second + ":" + sr2.Status
				}
				ob.Result = &sr
				switch {
				case ob.Cover && sr.Status == "sat":
					ob.Status = "discharged"
				case ob.Cover && sr.Status == "unsat":
					ob.Status = "failed"
				case !ob.Cover && sr.Status == "unsat":
					ob.Status = "discharged"
				case !ob.Cover && sr.Status == "sat":
					ob.Status = "failed"
				default:
					ob.Status = "unknown"
				}
				if os.Getenv("GOVC_KEEP") != "" && ob.Status != "discharged" {
					os.MkdirAll(os.Getenv("GOVC_KEEP"), 0755)
					if it.sliced != "" {
						os.WriteFile(filepath.Join(os.Getenv("GOVC_KEEP"), sanitize(ob.fn.key+"_"+ob.Name)+".sliced.smt2"), []byte(it.sliced), 0644)
					}
					if it.instq != "" {
						os.WriteFile(filepath.Join(os.Getenv("GOVC_KEEP"), sanitize(ob.fn.key+"_"+ob.Name)+".instq.smt2"), []byte(it.instq), 0644)
					}
					if it.relaxed != "" {
						os.WriteFile(filepath.Join(os.Getenv("GOVC_KEEP"), sanitize(ob.fn.key+"_"+ob.Name)+".relaxed.smt2"), []byte(it.relaxed), 0644)
					}
					os.WriteFile(filepath.Join(os.Getenv("GOVC_KEEP"), sanitize(ob.fn.key+"_"+ob.Name)+".smt2"), []byte(it.script), 0644)
				}
			}
		}()
	}
	for _, it := range items {
		ch <- it
	}
	close(ch)
	wg.Wait()
}

// relevantAxioms selects the recorded type facts whose subject occurs in the query.
func (x *FnCtx) relevantAxioms(asserts []*Term) []*Term {
	seen := map[int]bool{}
	var visit func(t *Term)
	visit = func(t *Term) {
		if seen[t.ID] {
			return
		}
		seen[t.ID] = true
		for _, a := range t.Args {
			visit(a)
		}
	}
	for _, a := range asserts {
		visit(a)
	}
	var out []*Term
	used := map[int]bool{}
	for round := 0; round < 3; round++ {
		added := false
		for _, ax := range x.axioms {
			if used[ax.ID] {
				continue
			}
			if axiomRelevant(ax, seen) {
				used[ax.ID] = true
				out = append(out, ax)
				visit(ax)
				added = true
			}
		}
		if !added {
			break
		}
	}
	return out
}

// an axiom is relevant when all its non-constant leaves (vars / uf applications / selects) occur already
func axiomRelevant(ax *Term, seen map[int]bool) bool {
	// table-content facts  select(A, const) = const  are relevant as soon as the table A is read
	if ax.Op == "=" && len(ax.Args) == 2 {
		for _, side := range ax.Args {
			if side.Op == "select" && side.Args[1].IsConst() && seen[side.Args[0].ID] {
				return true
			}
		}
	}
	rel := false
	var walk func(t *Term) bool
	walk = func(t *Term) bool {
		if seen[t.ID] {
			rel = true
			return true
		}
		switch {
		case t.Op == "const":
			return true
		case t.Op == "var":
			return false
		case t.Op == "select":
			return false
		case strings.HasPrefix(t.Op, "uf:gstr.") || t.Op == "uf:uf_strlast":
			// string functions: an application over terms of the query is part of its vocabulary
			for _, a := range t.Args {
				if !walk(a) {
					return false
				}
			}
			return true
		case strings.HasPrefix(t.Op, "uf:"):
			return false
		}
		for _, a := range t.Args {
			if !walk(a) {
				return false
			}
		}
		return true
	}
	return walk(ax) && rel
}

var bigZero = newBig(0)

var _ = token.NoPos

func hasQuantText(script string) bool {
	return strings.Contains(script, "(forall ") || strings.Contains(script, "(exists ")
}

// scanConstMaps finds package-level maps with integer keys that are built by
// one composite literal in the package initialiser (MakeMap, MapUpdate with
// constant keys, one Store) and whose every other use in the whole program is
// a load that feeds map look-ups only. For those, the key set is a constant
// and `_, ok := m[k]` is decided exactly (step.go, *ssa.Lookup).
func (e *Engine) scanConstMaps() {
	cand := map[*ssa.Global][]*ssa.Const{}
	for _, p := range e.prog.AllPackages() {
		if !strings.HasPrefix(p.Pkg.Path(), modulePath) {
			continue
		}
		initFn := p.Func("init")
		if initFn == nil {
			continue
		}
		for _, b := range initFn.Blocks {
			for _, in := range b.Instrs {
				s, ok := in.(*ssa.Store)
				if !ok {
					continue
				}
				g, ok := s.Addr.(*ssa.Global)
				if !ok || len(e.storedGlobals[g]) > 0 {
					continue
				}
				mt, ok := derefType(g.Type()).Underlying().(*types.Map)
				if !ok {
					continue
				}
				if bt, ok := mt.Key().Underlying().(*types.Basic); !ok || bt.Info()&types.IsInteger == 0 {
					continue
				}
				mm, ok := s.Val.(*ssa.MakeMap)
				if !ok || mm.Referrers() == nil {
					continue
				}
				if _, dup := cand[g]; dup {
					cand[g] = nil
					continue
				}
				var keys []*ssa.Const
				good := true
				for _, r := range *mm.Referrers() {
					switch u := r.(type) {
					case *ssa.MapUpdate:
						k, isC := u.Key.(*ssa.Const)
						if u.Map != ssa.Value(mm) || !isC || u.Value == ssa.Value(mm) {
							good = false
						}
						keys = append(keys, k)
					case *ssa.Store:
						if u != s {
							good = false
						}
					case *ssa.DebugRef:
					default:
						good = false
					}
				}
				if good {
					cand[g] = keys
				} else {
					cand[g] = nil
				}
			}
		}
	}
	// every other use anywhere: *g loaded, the load used by look-ups only
	for fn := range ssautil.AllFunctions(e.prog) {
		for _, b := range fn.Blocks {
			for _, in := range b.Instrs {
				for _, op := range in.Operands(nil) {
					g, ok := (*op).(*ssa.Global)
					if !ok {
						continue
					}
					if _, isCand := cand[g]; !isCand {
						continue
					}
					switch u := in.(type) {
					case *ssa.Store:
						if u.Addr != ssa.Value(g) || u.Val == ssa.Value(g) {
							cand[g] = nil
						}
					case *ssa.UnOp:
						if u.Op != token.MUL || u.Referrers() == nil {
							cand[g] = nil
							continue
						}
						for _, r := range *u.Referrers() {
							switch l := r.(type) {
							case *ssa.Lookup:
								if l.X != ssa.Value(u) || l.Index == ssa.Value(u) {
									cand[g] = nil
								}
							case *ssa.DebugRef:
							default:
								cand[g] = nil
							}
						}
					default:
						cand[g] = nil
					}
				}
			}
		}
	}
	for g, ks := range cand {
		if ks != nil {
			e.constMapKeys[g] = ks
		}
	}
}
