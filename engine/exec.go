package main

// Symbolic execution of naive-form SSA with state merging at join points,
// loop cutting at headers, modular calls and obligation generation.

import (
	"fmt"
	"go/constant"
	"go/token"
	"go/types"
	"math/big"
	"sort"
	"strings"

	"golang.org/x/tools/go/ssa"
)

type State struct {
	pc    *Term
	cells map[*ssa.Alloc]Value
	heap  *Heap
	ghost map[string]*Term
	regs  map[ssa.Value]Value
	gbase string // suffix for ghost variables not touched since the last total havoc
	loops map[*ssa.BasicBlock]*loopEntry
}

type loopEntry struct {
	pre  *State // state at loop entry (before havoc)
	li   *loopInfo
	decr []*Term
}

func (s *State) ghostSuffix() string {
	if s.gbase == "" {
		return "$0"
	}
	return s.gbase
}

func (x *FnCtx) setReg(st *State, v ssa.Value, val Value) {
	if st.regs == nil {
		st.regs = map[ssa.Value]Value{}
	}
	st.regs[v] = val
}

func (s *State) Clone() *State {
	n := &State{pc: s.pc, cells: make(map[*ssa.Alloc]Value, len(s.cells)), heap: s.heap.Clone(), ghost: map[string]*Term{}, regs: make(map[ssa.Value]Value, len(s.regs)), gbase: s.gbase, loops: map[*ssa.BasicBlock]*loopEntry{}}
	for k, v := range s.cells {
		n.cells[k] = v
	}
	for k, v := range s.regs {
		n.regs[k] = v
	}
	for k, v := range s.loops {
		n.loops[k] = v
	}
	for k, v := range s.ghost {
		n.ghost[k] = v
	}
	return n
}

type Frame struct {
	fn      *ssa.Function
	params  []Value
	depth   int
	prefix  string // obligation name prefix for inlined frames
	entry   *State // state at function entry (for old())
	binds   []Value
	defers  []*ssa.Defer
	ctr     *Contract
	siteOrd map[ssa.Instruction]string
	loopOrd map[*ssa.BasicBlock]int
}

type Obligation struct {
	Name     string
	Kind     string
	Optional bool // undischarged => assumption, never a violation
	Cover    bool // must be SAT
	Asserts  []*Term
	Goal     string // human-readable
	Result   *SolverResult
	Trivial  bool
	Status   string // discharged, failed, unknown
	Second   string // thorough tier: second solver and its answer on the same query
	fn       *FnCtx
}

type FnCtx struct {
	eng            *Engine
	tb             *TB
	bv             bool
	fn             *ssa.Function
	key            string
	contract       *Contract
	heapSorts      map[string]*Sort
	obs            []*Obligation
	axioms         []*Term
	axiomSeen      map[int]bool
	bits           map[int]int
	tz             map[int]int
	abstr          map[string]int
	entry          *State
	errs           []string
	selMemo        map[[2]int]*Term
	calleeUse      map[string]int
	usedAssumed    map[string]bool
	usedInlined    map[string]bool
	hasUnknownCall bool
	lastEvalErr    string
	madeTypes      map[string]types.Type
	ghostSorts     map[string]*Sort
	inInit         bool
	sitePos        map[string]string
}

func (x *FnCtx) abstracted(what string) { x.abstr[what]++ }

func (x *FnCtx) axiom(t *Term) {
	if t.IsTrue() || x.axiomSeen[t.ID] {
		return
	}
	if t.Op == "and" {
		for _, a := range t.Args {
			x.axiom(a)
		}
		return
	}
	if mentionsBound(t) {
		return
	}
	x.axiomSeen[t.ID] = true
	x.axioms = append(x.axioms, t)
}

func (x *FnCtx) freshOf(name string, t types.Type) Value {
	switch t.Underlying().(type) {
	case *types.Slice:
		s := x.freshSlice(name)
		x.axiom(x.typeInv(s, t, nil))
		return s
	case *types.Struct:
		return UnknownV{"fresh struct " + name}
	case *types.Tuple:
		tt := t.Underlying().(*types.Tuple)
		var out TupleV
		for i := 0; i < tt.Len(); i++ {
			out = append(out, x.freshOf(fmt.Sprintf("%s.%d", name, i), tt.At(i).Type()))
		}
		return out
	}
	v := x.tb.Fresh(name, x.sortOf(t))
	x.axiom(x.typeInv(v, t, nil))
	if w, s, ok := intInfo(t); ok && !s && !x.bv {
		x.setBits(v, w)
	}
	return v
}

// ---------- obligations ----------

func (x *FnCtx) addOb(kind, name string, st *State, goal *Term, optional bool, human string) {
	tb := x.tb
	ob := &Obligation{Name: name, Kind: kind, Optional: optional, Goal: human, fn: x}
	neg := tb.negSk(goal)
	if neg.IsFalse() || st.pc.IsFalse() {
		ob.Trivial = true
		ob.Status = "discharged"
	} else {
		ob.Asserts = append(append([]*Term{}, st.pc), neg)
	}
	x.obs = append(x.obs, ob)
}

func (x *FnCtx) safetyOb(kind, site string, st *State, goal *Term) {
	x.addOb(kind, site, st, goal, false, "")
	st.pc = x.tb.And(st.pc, goal) // assume after assert
}

func (x *FnCtx) optionalOb(kind, site string, st *State, goal *Term) {
	x.addOb(kind, site, st, goal, true, "")
}

func (x *FnCtx) coverOb(name string, st *State, cond *Term) {
	ob := &Obligation{Name: name, Kind: "cover", Cover: true, fn: x}
	// quantifier-free relaxation: universally quantified hypotheses are dropped, so that
	// unsat still proves vacuity while sat is decided quickly
	c := x.tb.dropForalls(x.tb.And(st.pc, cond), map[int]*Term{})
	if c.IsFalse() {
		ob.Trivial = true
		ob.Status = "failed"
	} else {
		ob.Asserts = []*Term{c}
	}
	x.obs = append(x.obs, ob)
}

// ---------- SSA helpers ----------

func (x *FnCtx) constValue(c *ssa.Const) Value {
	t := c.Type()
	if c.Value == nil {
		// zero value / nil
		switch t.Underlying().(type) {
		case *types.Slice:
			return x.zeroValue(t)
		case *types.Struct:
			return UnknownV{"const struct"}
		}
		return x.zeroValue(t)
	}
	switch c.Value.Kind() {
	case constant.Bool:
		return x.tb.Bool(constant.BoolVal(c.Value))
	case constant.Int:
		v, _ := new(big.Int).SetString(c.Value.ExactString(), 10)
		if _, _, ok := intInfo(t); ok {
			return x.intConst(v, t)
		}
		return x.tb.IntB(v)
	case constant.String:
		return x.stringConst(constant.StringVal(c.Value))
	}
	x.abstracted("constant of kind " + c.Value.Kind().String())
	return x.freshOf("unk_const", t)
}

func (x *FnCtx) stringConst(s string) *Term {
	id, ok := x.eng.strIDs[s]
	if !ok {
		id = int64(len(x.eng.strIDs) + 1)
		x.eng.strIDs[s] = id
	}
	// string ids live far above object refs? keep them as small negative numbers: distinct from refs
	t := x.tb.IntC(3000000 + id)
	x.axiom(x.tb.Eq(x.tb.UF("gstr.len", x.intSort(), t), x.idx(int64(len(s)))))
	return t
}

func (x *FnCtx) val(fr *Frame, st *State, v ssa.Value) Value {
	switch vv := v.(type) {
	case *ssa.Const:
		return x.constValue(vv)
	case *ssa.Global:
		return x.globalAddr(vv, st)
	case *ssa.Function:
		return FuncV{Fn: vv}
	case *ssa.Builtin:
		return UnknownV{"builtin value"}
	case *ssa.Parameter:
		for i, p := range fr.fn.Params {
			if p == vv {
				return fr.params[i]
			}
		}
	case *ssa.FreeVar:
		for i, p := range fr.fn.FreeVars {
			if p == vv && i < len(fr.binds) {
				return fr.binds[i]
			}
		}
		return UnknownV{"free variable"}
	}
	if r, ok := st.regs[v]; ok {
		return r
	}
	x.errs = append(x.errs, fmt.Sprintf("no value for %s (%T) in %s", v.Name(), v, fr.fn.Name()))
	return UnknownV{"undefined register " + v.Name()}
}

func (x *FnCtx) term(fr *Frame, st *State, v ssa.Value) *Term {
	r := x.val(fr, st, v)
	if t, ok := r.(*Term); ok {
		return t
	}
	if _, ok := r.(UnknownV); ok {
		f := x.freshOf("unk_"+v.Name(), v.Type())
		if t, ok := f.(*Term); ok {
			return t
		}
	}
	if fv, ok := r.(FuncV); ok {
		return x.funcRef(fv)
	}
	if lv, ok := r.(LocV); ok {
		// pointer to scalar used as a value: give it a stable symbolic identity
		return x.locRef(lv)
	}
	x.abstracted(fmt.Sprintf("non-scalar value used as scalar (%T)", r))
	return x.tb.Fresh("unk_"+v.Name(), x.sortOf(v.Type()))
}

func (x *FnCtx) funcRef(fv FuncV) *Term {
	id, ok := x.eng.funcIDs[fv.Fn]
	if !ok {
		id = int64(len(x.eng.funcIDs) + 1)
		x.eng.funcIDs[fv.Fn] = id
	}
	return x.tb.IntC(2000 + id)
}

func (x *FnCtx) locRef(l LocV) *Term {
	switch l.Kind {
	case LElem:
		return x.tb.UF("ptr.elem", IntSort, l.Ref, x.toInt(l.Idx))
	case LField:
		return x.tb.UF("ptr.field."+l.Map, IntSort, l.Ref)
	}
	return x.tb.Fresh("ptr", IntSort)
}

func (x *FnCtx) toInt(t *Term) *Term {
	if t.Sort.Kind == SBV {
		return x.tb.App("bv2nat", IntSort, t)
	}
	return t
}

func (x *FnCtx) globalAddr(g *ssa.Global, st *State) Value {
	et := g.Type().(*types.Pointer).Elem()
	if isStruct(et) {
		if !x.inInit {
			x.immutableGlobal(g, et, st) // field facts of an initialised, never re-assigned struct variable
		}
		return x.globalRef(g)
	}
	if _, ok := et.Underlying().(*types.Array); ok {
		if !x.inInit {
			x.immutableGlobal(g, et, st) // emits the content facts of an initialised, never re-assigned table
		}
		return x.globalRef(g)
	}
	return LocV{Kind: LGlobal, G: g, T: et}
}

func (x *FnCtx) globalRef(g *ssa.Global) *Term {
	id, ok := x.eng.globalIDs[g]
	if !ok {
		id = int64(len(x.eng.globalIDs)+1) * 4096
		x.eng.globalIDs[g] = id
	}
	return x.tb.IntC(id)
}

// ---------- loads and stores ----------

func derefType(t types.Type) types.Type {
	if p, ok := t.Underlying().(*types.Pointer); ok {
		return p.Elem()
	}
	return t
}

func (x *FnCtx) load(fr *Frame, st *State, ptr Value, pt types.Type) Value {
	et := derefType(pt)
	switch p := ptr.(type) {
	case LocV:
		switch p.Kind {
		case LCell:
			if v, ok := st.cells[p.Cell]; ok {
				return v
			}
			return x.zeroOrUnknown(et)
		case LField:
			l := layoutOfName(p.Map)
			return x.loadLoc(st, p, l)
		case LElem:
			m := x.heapGet(st.heap, "E."+elemKey(p.T), x.contentsSort(p.T))
			v := x.sel(x.sel(m, p.Ref), p.Idx)
			x.assumeType(st, v, p.T)
			return v
		case LGlobal:
			return x.loadGlobal(st, p.G, et)
		}
	case *Term:
		// pointer to struct / array / scalar cell
		switch u := et.Underlying().(type) {
		case *types.Struct:
			return StructV{H: st.heap.Clone(), Ref: p, T: et}
		case *types.Array:
			if isStruct(u.Elem()) {
				return UnknownV{"load array-of-struct"}
			}
			return x.sel(x.heapGet(st.heap, "E."+elemKey(u.Elem()), x.contentsSort(u.Elem())), p)
		case *types.Slice:
			x.abstracted("load of slice through opaque pointer")
			return x.freshOf("unk_load", et)
		}
		name := "C." + elemKey(et)
		v := x.sel(x.heapGet(st.heap, name, x.fieldMapSort(et)), p)
		x.assumeType(st, v, et)
		return v
	case UnknownV:
		return x.freshOf("unk_load", et)
	}
	x.abstracted(fmt.Sprintf("load through %T", ptr))
	return x.freshOf("unk_load", et)
}

func (x *FnCtx) zeroOrUnknown(t types.Type) Value {
	z := x.zeroValue(t)
	if _, ok := z.(UnknownV); ok {
		return x.freshOf("unk_zero", t)
	}
	return z
}

var fieldByMap = map[string]*fieldInfo{}

func layoutOfName(m string) *fieldInfo { return fieldByMap[m] }

func (x *FnCtx) loadLoc(st *State, p LocV, fi *fieldInfo) Value {
	v := x.loadField(st.heap, p.Ref, fi)
	x.assumeTypeV(st, v, fi.T)
	return v
}

// assumeType records machine-type facts for a loaded value.
func (x *FnCtx) assumeType(st *State, v *Term, t types.Type) {
	x.assumeTypeV(st, v, t)
}

func (x *FnCtx) assumeTypeV(st *State, v Value, t types.Type) {
	switch vv := v.(type) {
	case *Term:
		if w, s, ok := intInfo(t); ok {
			x.axiom(x.typeInv(vv, t, nil))
			if !s && !x.bv {
				x.setBits(vv, w)
			}
			return
		}
		if isRefLike(t) && vv.Sort == IntSort && !isString(t) {
			st.pc = x.tb.And(st.pc, x.tb.Lt(vv, st.heap.A))
			if ext := pointeeExtent(t); ext > 1 {
				// the whole pointee object lies below the allocation frontier
				st.pc = x.tb.And(st.pc, x.tb.Implies(x.tb.Ne(vv, x.tb.IntC(0)), x.tb.Le(x.tb.Add(vv, x.tb.IntC(ext)), st.heap.A)))
			}
		}
	case SliceV:
		x.axiom(x.typeInv(vv, t, nil))
		st.pc = x.tb.And(st.pc, x.tb.Lt(vv.Arr, st.heap.A))
		if sl, ok := t.Underlying().(*types.Slice); ok && isStruct(sl.Elem()) {
			// the block holding the elements lies below the allocation counter
			end := x.tb.Add(vv.Arr, x.tb.Mul(x.toInt(x.iadd(vv.Off, vv.Cap)), x.tb.IntC(slotSize(sl.Elem()))))
			st.pc = x.tb.And(st.pc, x.tb.Lt(end, st.heap.A))
		}
	}
}

func (x *FnCtx) loadGlobal(st *State, g *ssa.Global, et types.Type) Value {
	// error sentinels and other never-assigned globals are constants
	if c, ok := x.eng.constGlobal(x, g); ok {
		return c
	}
	if x.inInit && g.Name() == "init$guard" {
		return x.tb.False()
	}
	if !x.inInit {
		if v, ok := x.immutableGlobal(g, et, st); ok {
			return v
		}
	}
	name := "G." + g.Pkg.Pkg.Path() + "." + g.Name()
	if _, ok := et.Underlying().(*types.Slice); ok {
		is := x.intSort()
		sv := SliceV{
			Arr: x.ghostGet(st, name+"#arr", IntSort), Off: x.ghostGet(st, name+"#off", is),
			Len: x.ghostGet(st, name+"#len", is), Cap: x.ghostGet(st, name+"#cap", is)}
		x.axiom(x.typeInv(sv, et, nil))
		return sv
	}
	if !isScalar(et) {
		return x.freshOf("unk_global", et)
	}
	v := x.ghostGet(st, name, x.sortOf(et))
	x.assumeType(st, v, et)
	return v
}

func (x *FnCtx) ghostGet(st *State, name string, s *Sort) *Term {
	if t, ok := st.ghost[name]; ok {
		return t
	}
	t := x.tb.Var(name+st.ghostSuffix(), s)
	st.ghost[name] = t
	if x.ghostSorts == nil {
		x.ghostSorts = map[string]*Sort{}
	}
	x.ghostSorts[name] = s
	return t
}

func (x *FnCtx) store(fr *Frame, st *State, ptr Value, v Value, pt types.Type) {
	et := derefType(pt)
	switch p := ptr.(type) {
	case LocV:
		switch p.Kind {
		case LCell:
			st.cells[p.Cell] = v
			return
		case LField:
			x.storeField(st.heap, p.Ref, layoutOfName(p.Map), v)
			return
		case LElem:
			name := "E." + elemKey(p.T)
			m := x.heapGet(st.heap, name, x.contentsSort(p.T))
			t, ok := v.(*Term)
			if !ok {
				t = x.tb.Fresh("unk_store", x.sortOf(p.T))
			}
			st.heap.m[name] = x.tb.Store(m, p.Ref, x.tb.Store(x.sel(m, p.Ref), p.Idx, t))
			return
		case LGlobal:
			name := "G." + p.G.Pkg.Pkg.Path() + "." + p.G.Name()
			if t, ok := v.(*Term); ok {
				st.ghost[name] = t
			} else if sv, ok := v.(SliceV); ok {
				st.ghost[name+"#arr"], st.ghost[name+"#off"], st.ghost[name+"#len"], st.ghost[name+"#cap"] = sv.Arr, sv.Off, sv.Len, sv.Cap
			}
			x.eng.noteGlobalStore(p.G, x.key)
			return
		}
	case *Term:
		switch u := et.Underlying().(type) {
		case *types.Struct:
			x.copyStruct(st.heap, p, v, et)
			return
		case *types.Array:
			if isStruct(u.Elem()) {
				x.abstracted("store array-of-struct")
				return
			}
			name := "E." + elemKey(u.Elem())
			m := x.heapGet(st.heap, name, x.contentsSort(u.Elem()))
			t, ok := v.(*Term)
			if !ok {
				t = x.tb.Fresh("unk_arr", x.sortOf(et))
			}
			st.heap.m[name] = x.tb.Store(m, p, t)
			return
		case *types.Slice:
			x.abstracted("store of slice through opaque pointer")
			return
		}
		name := "C." + elemKey(et)
		t, ok := v.(*Term)
		if !ok {
			t = x.tb.Fresh("unk_store", x.sortOf(et))
		}
		st.heap.m[name] = x.tb.Store(x.heapGet(st.heap, name, x.fieldMapSort(et)), p, t)
		return
	}
	x.abstracted(fmt.Sprintf("store through %T", ptr))
}

// sel reads an array element (push-down of the read is done by TB.Select).
func (x *FnCtx) sel(a, i *Term) *Term { return x.tb.Select(a, i) }

// ---------- running a function body ----------

type retInfo struct {
	st      *State
	results []Value
	ord     int
}

type edge struct {
	from *ssa.BasicBlock
	st   *State
}

type loopInfo struct {
	header *ssa.BasicBlock
	blocks map[*ssa.BasicBlock]bool
	ord    int
}

func backEdges(fn *ssa.Function) map[[2]int]bool {
	be := map[[2]int]bool{}
	for _, b := range fn.Blocks {
		for _, s := range b.Succs {
			if s.Dominates(b) {
				be[[2]int{b.Index, s.Index}] = true
			}
		}
	}
	return be
}

func findLoops(fn *ssa.Function) map[*ssa.BasicBlock]*loopInfo {
	loops := map[*ssa.BasicBlock]*loopInfo{}
	be := backEdges(fn)
	for _, b := range fn.Blocks {
		for _, s := range b.Succs {
			if !be[[2]int{b.Index, s.Index}] {
				continue
			}
			li := loops[s]
			if li == nil {
				li = &loopInfo{header: s, blocks: map[*ssa.BasicBlock]bool{s: true}}
				loops[s] = li
			}
			// natural loop: nodes reaching b without passing s
			stack := []*ssa.BasicBlock{b}
			for len(stack) > 0 {
				n := stack[len(stack)-1]
				stack = stack[:len(stack)-1]
				if li.blocks[n] {
					continue
				}
				li.blocks[n] = true
				stack = append(stack, n.Preds...)
			}
		}
	}
	// ordinals by source position of the header
	var hs []*ssa.BasicBlock
	for h := range loops {
		hs = append(hs, h)
	}
	sort.Slice(hs, func(i, j int) bool {
		pi, pj := blockPos(hs[i]), blockPos(hs[j])
		if pi != pj {
			return pi < pj
		}
		return hs[i].Index < hs[j].Index
	})
	for i, h := range hs {
		loops[h].ord = i + 1
	}
	return loops
}

func blockPos(b *ssa.BasicBlock) token.Pos {
	best := token.NoPos
	for _, in := range b.Instrs {
		if p := in.Pos(); p.IsValid() && (best == token.NoPos || p < best) {
			best = p
		}
		if d, ok := in.(*ssa.DebugRef); ok {
			if p := d.Expr.Pos(); p.IsValid() && (best == token.NoPos || p < best) {
				best = p
			}
		}
	}
	if best == token.NoPos {
		return token.Pos(1 << 30)
	}
	return best
}

func rpo(fn *ssa.Function, be map[[2]int]bool) []*ssa.BasicBlock {
	var order []*ssa.BasicBlock
	seen := map[*ssa.BasicBlock]bool{}
	var dfs func(b *ssa.BasicBlock)
	dfs = func(b *ssa.BasicBlock) {
		seen[b] = true
		for _, s := range b.Succs {
			if be[[2]int{b.Index, s.Index}] || seen[s] {
				continue
			}
			dfs(s)
		}
		order = append(order, b)
	}
	dfs(fn.Blocks[0])
	for i, j := 0, len(order)-1; i < j; i, j = i+1, j-1 {
		order[i], order[j] = order[j], order[i]
	}
	return order
}

// mergePC is the disjunction of path conditions with common conjuncts factored out.
func (x *FnCtx) mergePC(pcs []*Term) *Term {
	tb := x.tb
	if len(pcs) == 1 {
		return pcs[0]
	}
	conj := func(t *Term) []*Term {
		if t.Op == "and" {
			return t.Args
		}
		return []*Term{t}
	}
	count := map[int]int{}
	for _, p := range pcs {
		for _, c := range conj(p) {
			count[c.ID]++
		}
	}
	var common []*Term
	for _, c := range conj(pcs[0]) {
		if count[c.ID] == len(pcs) {
			common = append(common, c)
		}
	}
	var rests []*Term
	for _, p := range pcs {
		var r []*Term
		for _, c := range conj(p) {
			if count[c.ID] != len(pcs) {
				r = append(r, c)
			}
		}
		rests = append(rests, tb.And(r...))
	}
	return tb.And(tb.And(common...), tb.Or(rests...))
}

func (x *FnCtx) mergeValues(conds []*Term, vals []Value) Value {
	tb := x.tb
	same := true
	for _, v := range vals[1:] {
		if !valueEq(v, vals[0]) {
			same = false
			break
		}
	}
	if same {
		return vals[0]
	}
	// function values merge through their reference terms
	for i, v := range vals {
		if fv, ok := v.(FuncV); ok {
			vals = append([]Value{}, vals...)
			vals[i] = x.funcRef(fv)
		}
	}
	switch v0 := vals[len(vals)-1].(type) {
	case *Term:
		r := v0
		for i := len(vals) - 2; i >= 0; i-- {
			t, ok := vals[i].(*Term)
			if !ok || t.Sort != r.Sort {
				return UnknownV{"merge of mismatched values"}
			}
			r = tb.Ite(conds[i], t, r)
		}
		return r
	case SliceV:
		r := v0
		for i := len(vals) - 2; i >= 0; i-- {
			s, ok := vals[i].(SliceV)
			if !ok {
				return UnknownV{"merge of mismatched values"}
			}
			r = SliceV{Arr: tb.Ite(conds[i], s.Arr, r.Arr), Off: tb.Ite(conds[i], s.Off, r.Off),
				Len: tb.Ite(conds[i], s.Len, r.Len), Cap: tb.Ite(conds[i], s.Cap, r.Cap)}
		}
		return r
	case LocV:
		r := v0
		for i := len(vals) - 2; i >= 0; i-- {
			s, ok := vals[i].(LocV)
			if !ok || s.Kind != r.Kind || s.Map != r.Map || s.Cell != r.Cell || s.G != r.G {
				return UnknownV{"merge of different pointers"}
			}
			if r.Ref != nil {
				r.Ref = tb.Ite(conds[i], s.Ref, r.Ref)
			}
			if r.Idx != nil {
				r.Idx = tb.Ite(conds[i], s.Idx, r.Idx)
			}
		}
		return r
	case TupleV:
		out := make(TupleV, len(v0))
		for k := range v0 {
			var vs []Value
			for _, v := range vals {
				t, ok := v.(TupleV)
				if !ok || len(t) != len(v0) {
					return UnknownV{"merge of mismatched tuples"}
				}
				vs = append(vs, t[k])
			}
			out[k] = x.mergeValues(conds, vs)
		}
		return out
	case StructV:
		// struct values merge by reference when the snapshots agree on it; otherwise materialise
		r := v0
		for i := len(vals) - 2; i >= 0; i-- {
			s, ok := vals[i].(StructV)
			if !ok {
				return UnknownV{"merge of mismatched values"}
			}
			h := x.mergeHeaps([]*Term{conds[i], tb.True()}, []*Heap{s.H, r.H})
			r = StructV{H: h, Ref: tb.Ite(conds[i], s.Ref, r.Ref), T: r.T}
		}
		return r
	}
	return UnknownV{"merge of unsupported values"}
}

func valueEq(a, b Value) bool {
	switch av := a.(type) {
	case *Term:
		bv, ok := b.(*Term)
		return ok && av == bv
	case SliceV:
		bv, ok := b.(SliceV)
		return ok && av == bv
	case LocV:
		bv, ok := b.(LocV)
		return ok && av == bv
	case FuncV:
		bv, ok := b.(FuncV)
		return ok && av.Fn == bv.Fn && len(av.Bindings) == 0 && len(bv.Bindings) == 0
	}
	return false
}

func (x *FnCtx) mergeHeaps(conds []*Term, hs []*Heap) *Heap {
	tb := x.tb
	out := &Heap{m: map[string]*Term{}, base: hs[len(hs)-1].base}
	for _, h := range hs {
		if h.base != out.base {
			out.base = fmt.Sprintf("$m%d", x.tb.nextID())
			break
		}
	}
	names := map[string]bool{}
	for _, h := range hs {
		for k := range h.m {
			names[k] = true
		}
	}
	differ := false
	for _, h := range hs {
		if h.base != hs[0].base {
			differ = true
		}
	}
	if differ {
		for k := range x.heapSorts {
			names[k] = true
		}
	}
	for k := range names {
		var r *Term
		for i := len(hs) - 1; i >= 0; i-- {
			t, ok := hs[i].m[k]
			if !ok {
				t = x.tb.Var(k+hs[i].baseSuffix(), x.heapSorts[k])
			}
			if r == nil {
				r = t
			} else {
				r = tb.Ite(conds[i], t, r)
			}
		}
		out.m[k] = r
	}
	a := hs[len(hs)-1].A
	for i := len(hs) - 2; i >= 0; i-- {
		a = tb.Ite(conds[i], hs[i].A, a)
	}
	out.A = a
	return out
}

func (x *FnCtx) mergeStates(es []edge) *State {
	if len(es) == 1 {
		return es[0].st
	}
	var pcs []*Term
	var heaps []*Heap
	for _, e := range es {
		pcs = append(pcs, e.st.pc)
		heaps = append(heaps, e.st.heap)
	}
	out := &State{pc: x.mergePC(pcs), cells: map[*ssa.Alloc]Value{}, ghost: map[string]*Term{}, regs: map[ssa.Value]Value{}}
	out.heap = x.mergeHeaps(pcs, heaps)
	out.loops = map[*ssa.BasicBlock]*loopEntry{}
	for _, e := range es {
		for k, v := range e.st.regs {
			out.regs[k] = v
		}
		for k, v := range e.st.loops {
			out.loops[k] = v
		}
	}
	cellKeys := map[*ssa.Alloc]bool{}
	for _, e := range es {
		for k := range e.st.cells {
			cellKeys[k] = true
		}
	}
	for k := range cellKeys {
		var cs []*Term
		var vs []Value
		for _, e := range es {
			if v, ok := e.st.cells[k]; ok {
				cs = append(cs, e.st.pc)
				vs = append(vs, v)
			}
		}
		out.cells[k] = x.mergeValues(cs, vs)
	}
	gk := map[string]bool{}
	for _, e := range es {
		for k := range e.st.ghost {
			gk[k] = true
		}
	}
	for k := range gk {
		var r *Term
		for i := len(es) - 1; i >= 0; i-- {
			t, ok := es[i].st.ghost[k]
			if !ok {
				var s *Sort
				for _, e := range es {
					if tt, ok := e.st.ghost[k]; ok {
						s = tt.Sort
					}
				}
				t = x.tb.Var(k+es[i].st.ghostSuffix(), s)
			}
			if r == nil {
				r = t
			} else {
				r = x.tb.Ite(es[i].st.pc, t, r)
			}
		}
		out.ghost[k] = r
	}
	out.gbase = es[len(es)-1].st.gbase
	for _, e := range es {
		if e.st.gbase != out.gbase {
			// different histories: materialise every declared ghost variable in the merge
			out.gbase = fmt.Sprintf("$m%d", x.tb.nextID())
			for gk := range x.ghostSorts {
				if _, done := out.ghost[gk]; done {
					continue
				}
				var r *Term
				for i := len(es) - 1; i >= 0; i-- {
					t, ok := es[i].st.ghost[gk]
					if !ok {
						t = x.tb.Var(gk+es[i].st.ghostSuffix(), x.ghostSorts[gk])
					}
					if r == nil {
						r = t
					} else {
						r = x.tb.Ite(es[i].st.pc, t, r)
					}
				}
				out.ghost[gk] = r
			}
			break
		}
	}
	return out
}

// run executes fr.fn from st and returns the states at its return instructions.
func (x *FnCtx) run(fr *Frame, st0 *State) []retInfo {
	fn := fr.fn
	if len(fn.Blocks) == 0 {
		return nil
	}
	be := backEdges(fn)
	loops := findLoops(fn)
	order := rpo(fn, be)
	in := map[*ssa.BasicBlock][]edge{}
	in[fn.Blocks[0]] = []edge{{nil, st0}}
	var rets []retInfo
	x.assignSites(fr)
	retOrd := 0
	split := fr.ctr != nil && fr.ctr.Split && fr.depth == 0
	var process func(b *ssa.BasicBlock, st *State)
	process = func(b *ssa.BasicBlock, st *State) {
		if st.pc.IsFalse() {
			return
		}
		if li, ok := loops[b]; ok {
			le := &loopEntry{li: li}
			st = x.enterLoop(fr, st, li, &le.pre, &le.decr)
			if st.loops == nil {
				st.loops = map[*ssa.BasicBlock]*loopEntry{}
			}
			st.loops[b] = le
		}
		goEdge := func(succ *ssa.BasicBlock, s *State) {
			if s.pc.IsFalse() {
				return
			}
			if be[[2]int{b.Index, succ.Index}] {
				le := s.loops[succ]
				if le != nil {
					x.backEdge(fr, s, le.li, le.pre, le.decr)
				}
				return
			}
			fr.setPhiPC(b, succ, s.pc)
			in[succ] = append(in[succ], edge{b, s})
		}
		// continuation queue: a dispatch call in path-sensitive mode forks the state inside the block
		type cont struct {
			st  *State
			idx int
		}
		queue := []cont{{st, 0}}
		for len(queue) > 0 {
			c := queue[len(queue)-1]
			queue = queue[:len(queue)-1]
			cur := c.st
			var term ssa.Instruction
			forked := false
			for i := c.idx; i < len(b.Instrs) && !forked; i++ {
				instr := b.Instrs[i]
				switch in := instr.(type) {
				case *ssa.If, *ssa.Jump, *ssa.Return, *ssa.Panic:
					term = instr
				case *ssa.Call:
					if split {
						if cands := x.dispatchCands(fr, in); cands != nil {
							for _, fs := range x.dispatchFork(fr, cur, in, cands) {
								queue = append(queue, cont{fs, i + 1})
							}
							forked = true
							continue
						}
					}
					x.step(fr, cur, instr)
				default:
					x.step(fr, cur, instr)
				}
			}
			if forked {
				continue
			}
			switch t := term.(type) {
			case *ssa.Jump:
				goEdge(b.Succs[0], cur)
			case *ssa.If:
				cnd := x.term(fr, cur, t.Cond)
				s1 := cur.Clone()
				s1.pc = x.tb.And(cur.pc, cnd)
				s2 := cur
				s2.pc = x.tb.And(cur.pc, x.tb.Not(cnd))
				goEdge(b.Succs[0], s1)
				goEdge(b.Succs[1], s2)
			case *ssa.Return:
				retOrd++
				var rs []Value
				for _, r := range t.Results {
					rs = append(rs, x.val(fr, cur, r))
				}
				rets = append(rets, retInfo{st: cur, results: rs, ord: retOrd})
			case *ssa.Panic:
				x.safetyOb("unreachable", fr.prefix+fr.siteOrd[t], cur, x.tb.False())
			}
		}
	}
	for _, b := range order {
		es := in[b]
		if len(es) == 0 {
			continue
		}
		hasPhi := false
		for _, instr := range b.Instrs {
			if _, ok := instr.(*ssa.Phi); ok {
				hasPhi = true
			}
		}
		if split && len(es) > 1 && !hasPhi && len(es) <= 64 {
			// path-sensitive mode: no merging, one pass over the block per incoming state
			for _, e := range es {
				process(b, e.st.Clone())
			}
			continue
		}
		st := x.mergeStates(es)
		if len(es) > 1 {
			st = st.Clone()
		}
		process(b, st)
	}
	return rets
}

// assignSites gives every obligation-bearing instruction a stable name:
// kind#k with k counting sites of that kind in block order.
func (x *FnCtx) assignSites(fr *Frame) {
	if fr.siteOrd != nil {
		return
	}
	fr.siteOrd = map[ssa.Instruction]string{}
	ctr := map[string]int{}
	name := func(kind string) string {
		ctr[kind]++
		return fmt.Sprintf("%s#%d", kind, ctr[kind])
	}
	// source order: sort blocks by position for stability against block renumbering
	blocks := append([]*ssa.BasicBlock{}, fr.fn.Blocks...)
	defer func() {
		if x.sitePos == nil {
			x.sitePos = map[string]string{}
		}
		for in, n := range fr.siteOrd {
			if p := in.Pos(); p.IsValid() {
				pos := x.eng.prog.Fset.Position(p)
				x.sitePos[fr.prefix+n] = fmt.Sprintf("%s:%d", shortKey(pos.Filename), pos.Line)
			}
		}
	}()
	for _, b := range blocks {
		for _, in := range b.Instrs {
			switch v := in.(type) {
			case *ssa.IndexAddr, *ssa.Index:
				fr.siteOrd[in] = name("bounds")
			case *ssa.Slice:
				fr.siteOrd[in] = name("slice")
			case *ssa.Panic:
				fr.siteOrd[in] = name("unreachable")
			case *ssa.TypeAssert:
				fr.siteOrd[in] = name("assert-type")
			case *ssa.BinOp:
				if v.Op == token.QUO || v.Op == token.REM {
					fr.siteOrd[in] = name("div")
				} else {
					fr.siteOrd[in] = name("ovf")
				}
			case *ssa.Convert:
				fr.siteOrd[in] = name("conv")
			case *ssa.Call:
				fr.siteOrd[in] = name("call@" + calleeName(v.Common()))
			case *ssa.Defer:
				fr.siteOrd[in] = name("defer@" + calleeName(v.Common()))
			case *ssa.UnOp:
				if v.Op == token.MUL {
					fr.siteOrd[in] = name("nil")
				}
			case *ssa.Store:
				fr.siteOrd[in] = name("nilst")
			case *ssa.MakeSlice:
				fr.siteOrd[in] = name("makeslice")
			}
		}
	}
}

func calleeName(c *ssa.CallCommon) string {
	if c.IsInvoke() {
		return shortTypeName(c.Value.Type()) + "." + c.Method.Name()
	}
	switch v := c.Value.(type) {
	case *ssa.Function:
		k := funcKey(v)
		if i := strings.LastIndex(k, "/"); i >= 0 {
			k = k[i+1:]
		}
		return k
	case *ssa.Builtin:
		return v.Name()
	}
	return "dynamic"
}

// mentionsBound: the term has a quantifier-bound variable (named x?N) free in it.
func mentionsBound(t *Term) bool {
	seen := map[int]bool{}
	var walk func(t *Term) bool
	walk = func(t *Term) bool {
		if seen[t.ID] {
			return false
		}
		seen[t.ID] = true
		if t.Op == "var" && strings.Contains(t.Name, "?") {
			return true
		}
		if t.Op == "forall" || t.Op == "exists" {
			return false
		}
		for _, a := range t.Args {
			if walk(a) {
				return true
			}
		}
		return false
	}
	return walk(t)
}

// dropForalls replaces positively occurring universal quantifiers by true (a weakening).
func (tb *TB) dropForalls(t *Term, memo map[int]*Term) *Term {
	if r, ok := memo[t.ID]; ok {
		return r
	}
	r := t
	switch t.Op {
	case "forall":
		r = tb.True()
	case "and", "or":
		args := make([]*Term, len(t.Args))
		for i, a := range t.Args {
			args[i] = tb.dropForalls(a, memo)
		}
		if t.Op == "and" {
			r = tb.And(args...)
		} else {
			r = tb.Or(args...)
		}
	case "=":
		if t.Args[0].Sort.Kind == SBool && (hasQuant(t.Args[0]) || hasQuant(t.Args[1])) {
			r = tb.True()
		}
	case "not", "ite":
		if hasQuant(t) {
			r = tb.True()
		}
	}
	memo[t.ID] = r
	return r
}

func hasQuant(t *Term) bool {
	if t.Op == "forall" || t.Op == "exists" {
		return true
	}
	for _, a := range t.Args {
		if hasQuant(a) {
			return true
		}
	}
	return false
}
