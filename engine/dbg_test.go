package main
import ("testing";"fmt")
func TestDbgGlobals(t *testing.T) {
	initScratch(); defer cleanupScratch()
	e, err := NewEngine("/repo", "/verif/spec")
	if err != nil { t.Fatal(err) }
	for g, gi := range e.globalInits { fmt.Println(g.Pkg.Pkg.Path(), g.Name(), gi.kind, len(gi.elems), gi.scalar) }
	for g, fs := range e.storedGlobals { fmt.Println("stored:", g.Name(), fs) }
}
