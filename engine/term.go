package main

// Hash-consed SMT terms with light simplification and an SMT-LIB printer
// that shares common sub-terms through define-fun.

import (
	"fmt"
	"math/big"
	"sort"
	"strings"
)

type SortKind int

const (
	SBool SortKind = iota
	SInt
	SBV
	SArray
)

type Sort struct {
	Kind  SortKind
	Width int
	Idx   *Sort
	Elem  *Sort
}

var (
	BoolSort = &Sort{Kind: SBool}
	IntSort  = &Sort{Kind: SInt}
	bvSorts  = map[int]*Sort{}
	arrSorts = map[string]*Sort{}
)

func BVSort(w int) *Sort {
	if s, ok := bvSorts[w]; ok {
		return s
	}
	s := &Sort{Kind: SBV, Width: w}
	bvSorts[w] = s
	return s
}

func ArraySort(idx, elem *Sort) *Sort {
	k := idx.String() + ">" + elem.String()
	if s, ok := arrSorts[k]; ok {
		return s
	}
	s := &Sort{Kind: SArray, Idx: idx, Elem: elem}
	arrSorts[k] = s
	return s
}

func (s *Sort) String() string {
	switch s.Kind {
	case SBool:
		return "Bool"
	case SInt:
		return "Int"
	case SBV:
		return fmt.Sprintf("(_ BitVec %d)", s.Width)
	case SArray:
		return fmt.Sprintf("(Array %s %s)", s.Idx, s.Elem)
	}
	return "?"
}

type Term struct {
	ID   int
	Op   string // "var", "const", "uf:<name>", or an SMT operator
	Args []*Term
	Sort *Sort
	Name string   // var / uf name
	Val  *big.Int // const value (Int or BV); for Bool const 0/1
}

type TB struct {
	terms        map[string]*Term
	next         int
	ufs          map[string]*ufDecl
	fresh        map[string]int
	groundByRoot map[string][]*Term
	selMemo      map[[2]int]*Term
	// cover (satisfiability) queries: the definitional axioms of array copies are left out, the copies
	// become unconstrained arrays - a weakening, so unsat still proves vacuity and sat is decided quickly
	dropCaAxioms bool
}

type ufDecl struct {
	name string
	args []*Sort
	res  *Sort
}

func NewTB() *TB {
	return &TB{terms: map[string]*Term{}, ufs: map[string]*ufDecl{}, fresh: map[string]int{}}
}

func (tb *TB) mk(op string, sort *Sort, name string, val *big.Int, args ...*Term) *Term {
	var sb strings.Builder
	sb.WriteString(op)
	sb.WriteByte('|')
	sb.WriteString(sort.String())
	sb.WriteByte('|')
	sb.WriteString(name)
	if val != nil {
		sb.WriteByte('#')
		sb.WriteString(val.String())
	}
	for _, a := range args {
		fmt.Fprintf(&sb, ",%d", a.ID)
	}
	k := sb.String()
	if t, ok := tb.terms[k]; ok {
		return t
	}
	tb.next++
	t := &Term{ID: tb.next, Op: op, Args: args, Sort: sort, Name: name, Val: val}
	tb.terms[k] = t
	return t
}

func (tb *TB) Var(name string, s *Sort) *Term { return tb.mk("var", s, name, nil) }

func (tb *TB) Fresh(prefix string, s *Sort) *Term {
	prefix = sanitize(prefix)
	tb.fresh[prefix]++
	return tb.Var(fmt.Sprintf("%s!%d", prefix, tb.fresh[prefix]), s)
}

func sanitize(s string) string {
	var sb strings.Builder
	for _, r := range s {
		switch {
		case r >= 'a' && r <= 'z', r >= 'A' && r <= 'Z', r >= '0' && r <= '9', r == '_', r == '.', r == '$', r == '!':
			sb.WriteRune(r)
		default:
			sb.WriteByte('_')
		}
	}
	return sb.String()
}

func (tb *TB) True() *Term  { return tb.mk("const", BoolSort, "", big.NewInt(1)) }
func (tb *TB) False() *Term { return tb.mk("const", BoolSort, "", big.NewInt(0)) }
func (tb *TB) Bool(b bool) *Term {
	if b {
		return tb.True()
	}
	return tb.False()
}

func (tb *TB) IntC(v int64) *Term { return tb.mk("const", IntSort, "", big.NewInt(v)) }
func (tb *TB) IntB(v *big.Int) *Term {
	return tb.mk("const", IntSort, "", new(big.Int).Set(v))
}

func (tb *TB) BVC(v *big.Int, w int) *Term {
	m := new(big.Int).Lsh(big.NewInt(1), uint(w))
	x := new(big.Int).Mod(v, m)
	return tb.mk("const", BVSort(w), "", x)
}

func (t *Term) IsConst() bool { return t.Op == "const" }
func (t *Term) IsTrue() bool  { return t.Op == "const" && t.Sort.Kind == SBool && t.Val.Sign() != 0 }
func (t *Term) IsFalse() bool { return t.Op == "const" && t.Sort.Kind == SBool && t.Val.Sign() == 0 }

func (tb *TB) Not(a *Term) *Term {
	if a.IsTrue() {
		return tb.False()
	}
	if a.IsFalse() {
		return tb.True()
	}
	if a.Op == "not" {
		return a.Args[0]
	}
	return tb.mk("not", BoolSort, "", nil, a)
}

func (tb *TB) And(as ...*Term) *Term {
	var out []*Term
	seen := map[int]bool{}
	for _, a := range as {
		if a.IsTrue() {
			continue
		}
		if a.IsFalse() {
			return a
		}
		if a.Op == "and" {
			for _, b := range a.Args {
				if !seen[b.ID] {
					seen[b.ID] = true
					out = append(out, b)
				}
			}
			continue
		}
		if !seen[a.ID] {
			seen[a.ID] = true
			out = append(out, a)
		}
	}
	for _, a := range out {
		if a.Op == "not" && seen[a.Args[0].ID] {
			return tb.False()
		}
	}
	switch len(out) {
	case 0:
		return tb.True()
	case 1:
		return out[0]
	}
	return tb.mk("and", BoolSort, "", nil, out...)
}

func (tb *TB) Or(as ...*Term) *Term {
	var out []*Term
	seen := map[int]bool{}
	for _, a := range as {
		if a.IsFalse() {
			continue
		}
		if a.IsTrue() {
			return a
		}
		if a.Op == "or" {
			for _, b := range a.Args {
				if !seen[b.ID] {
					seen[b.ID] = true
					out = append(out, b)
				}
			}
			continue
		}
		if !seen[a.ID] {
			seen[a.ID] = true
			out = append(out, a)
		}
	}
	for _, a := range out {
		if a.Op == "not" && seen[a.Args[0].ID] {
			return tb.True()
		}
	}
	switch len(out) {
	case 0:
		return tb.False()
	case 1:
		return out[0]
	}
	return tb.mk("or", BoolSort, "", nil, out...)
}

func (tb *TB) Implies(a, b *Term) *Term { return tb.Or(tb.Not(a), b) }

func (tb *TB) Ite(c, a, b *Term) *Term {
	if c.IsTrue() {
		return a
	}
	if c.IsFalse() {
		return b
	}
	if a == b {
		return a
	}
	if a.Sort != b.Sort {
		panic(fmt.Sprintf("ite sort mismatch %s vs %s", a.Sort, b.Sort))
	}
	if a.Sort.Kind == SBool {
		if a.IsTrue() && b.IsFalse() {
			return c
		}
		if a.IsFalse() && b.IsTrue() {
			return tb.Not(c)
		}
		if a.IsTrue() {
			return tb.Or(c, b)
		}
		if a.IsFalse() {
			return tb.And(tb.Not(c), b)
		}
		if b.IsTrue() {
			return tb.Or(tb.Not(c), a)
		}
		if b.IsFalse() {
			return tb.And(c, a)
		}
	}
	return tb.mk("ite", a.Sort, "", nil, c, a, b)
}

func (tb *TB) Eq(a, b *Term) *Term {
	if a == b {
		return tb.True()
	}
	if a.Sort != b.Sort {
		panic(fmt.Sprintf("eq sort mismatch %s vs %s (%s / %s)", a.Sort, b.Sort, tb.Show(a), tb.Show(b)))
	}
	if a.IsConst() && b.IsConst() {
		return tb.Bool(a.Val.Cmp(b.Val) == 0)
	}
	if a.Sort.Kind == SBool {
		if a.IsTrue() {
			return b
		}
		if b.IsTrue() {
			return a
		}
		if a.IsFalse() {
			return tb.Not(b)
		}
		if b.IsFalse() {
			return tb.Not(a)
		}
	}
	if a.ID > b.ID {
		a, b = b, a
	}
	return tb.mk("=", BoolSort, "", nil, a, b)
}

func (tb *TB) Ne(a, b *Term) *Term { return tb.Not(tb.Eq(a, b)) }

// App builds a generic operator application (no simplification).
func (tb *TB) App(op string, s *Sort, args ...*Term) *Term {
	return tb.mk(op, s, "", nil, args...)
}

// UF applies an uninterpreted function, declaring it on first use.
func (tb *TB) UF(name string, res *Sort, args ...*Term) *Term {
	name = sanitize(name)
	if _, ok := tb.ufs[name]; !ok {
		d := &ufDecl{name: name, res: res}
		for _, a := range args {
			d.args = append(d.args, a.Sort)
		}
		tb.ufs[name] = d
	}
	return tb.mk("uf:"+name, res, name, nil, args...)
}

func (tb *TB) selectRaw(a, i *Term) *Term {
	if a.Sort.Kind != SArray {
		panic("select on non-array " + tb.Show(a))
	}
	if a.Sort.Idx != i.Sort {
		panic(fmt.Sprintf("select index sort mismatch: %s vs %s", a.Sort, i.Sort))
	}
	// read-over-write for syntactically decidable cases
	for a.Op == "store" {
		j := a.Args[1]
		if j == i {
			return a.Args[2]
		}
		if j.IsConst() && i.IsConst() {
			a = a.Args[0]
			continue
		}
		break
	}
	if a.Op == "constarr" {
		return a.Args[0]
	}
	return tb.mk("select", a.Sort.Elem, "", nil, a, i)
}

func (tb *TB) Store(a, i, v *Term) *Term {
	if a.Sort.Kind != SArray || a.Sort.Idx != i.Sort || a.Sort.Elem != v.Sort {
		panic(fmt.Sprintf("store sort mismatch: %s [%s] := %s", a.Sort, i.Sort, v.Sort))
	}
	if a.Op == "store" && a.Args[1] == i {
		a = a.Args[0]
	}
	return tb.mk("store", a.Sort, "", nil, a, i, v)
}

// ConstArr is ((as const S) v).
func (tb *TB) ConstArr(s *Sort, v *Term) *Term {
	return tb.mk("constarr", s, "", nil, v)
}

// ---- integer arithmetic (Int sort) with constant folding ----

func (tb *TB) Add(a, b *Term) *Term {
	if a.IsConst() && b.IsConst() {
		return tb.IntB(new(big.Int).Add(a.Val, b.Val))
	}
	if a.IsConst() && a.Val.Sign() == 0 {
		return b
	}
	if b.IsConst() && b.Val.Sign() == 0 {
		return a
	}
	// (x + c1) + c2
	if b.IsConst() && a.Op == "+" && len(a.Args) == 2 && a.Args[1].IsConst() {
		return tb.Add(a.Args[0], tb.IntB(new(big.Int).Add(a.Args[1].Val, b.Val)))
	}
	if a.IsConst() {
		a, b = b, a
	}
	return tb.mk("+", IntSort, "", nil, a, b)
}

func (tb *TB) Sub(a, b *Term) *Term {
	if a == b {
		return tb.IntC(0)
	}
	if b.IsConst() {
		return tb.Add(a, tb.IntB(new(big.Int).Neg(b.Val)))
	}
	if a.IsConst() && b.IsConst() {
		return tb.IntB(new(big.Int).Sub(a.Val, b.Val))
	}
	return tb.mk("-", IntSort, "", nil, a, b)
}

func (tb *TB) Neg(a *Term) *Term { return tb.Sub(tb.IntC(0), a) }

func (tb *TB) Mul(a, b *Term) *Term {
	if a.IsConst() && b.IsConst() {
		return tb.IntB(new(big.Int).Mul(a.Val, b.Val))
	}
	if a.IsConst() {
		a, b = b, a
	}
	if b.IsConst() {
		if b.Val.Sign() == 0 {
			return b
		}
		if b.Val.Cmp(big.NewInt(1)) == 0 {
			return a
		}
	}
	return tb.mk("*", IntSort, "", nil, a, b)
}

// Div is SMT-LIB integer div (floor for positive divisors).
func (tb *TB) Div(a, b *Term) *Term {
	if a.IsConst() && b.IsConst() && b.Val.Sign() > 0 {
		q := new(big.Int)
		m := new(big.Int)
		q.DivMod(a.Val, b.Val, m)
		return tb.IntB(q)
	}
	if b.IsConst() && b.Val.Cmp(big.NewInt(1)) == 0 {
		return a
	}
	return tb.mk("div", IntSort, "", nil, a, b)
}

func (tb *TB) Mod(a, b *Term) *Term {
	if a.IsConst() && b.IsConst() && b.Val.Sign() > 0 {
		return tb.IntB(new(big.Int).Mod(a.Val, b.Val))
	}
	return tb.mk("mod", IntSort, "", nil, a, b)
}

func (tb *TB) cmp(op string, a, b *Term) *Term {
	if a.IsConst() && b.IsConst() {
		c := a.Val.Cmp(b.Val)
		switch op {
		case "<":
			return tb.Bool(c < 0)
		case "<=":
			return tb.Bool(c <= 0)
		}
	}
	if a == b {
		return tb.Bool(op == "<=")
	}
	return tb.mk(op, BoolSort, "", nil, a, b)
}

func (tb *TB) Lt(a, b *Term) *Term { return tb.cmp("<", a, b) }
func (tb *TB) Le(a, b *Term) *Term { return tb.cmp("<=", a, b) }
func (tb *TB) Gt(a, b *Term) *Term { return tb.cmp("<", b, a) }
func (tb *TB) Ge(a, b *Term) *Term { return tb.cmp("<=", b, a) }

// ---- bit-vector helpers with constant folding for the common cases ----

func mask(w int) *big.Int {
	m := new(big.Int).Lsh(big.NewInt(1), uint(w))
	return m.Sub(m, big.NewInt(1))
}

func toSigned(v *big.Int, w int) *big.Int {
	if v.Bit(w-1) == 1 {
		return new(big.Int).Sub(v, new(big.Int).Lsh(big.NewInt(1), uint(w)))
	}
	return new(big.Int).Set(v)
}

func (tb *TB) BVBin(op string, a, b *Term) *Term {
	if a.Sort != b.Sort {
		panic(fmt.Sprintf("bv op %s sort mismatch %s vs %s: %s / %s", op, a.Sort, b.Sort, tb.Show(a), tb.Show(b)))
	}
	w := a.Sort.Width
	if a.IsConst() && b.IsConst() {
		x, y := a.Val, b.Val
		r := new(big.Int)
		ok := true
		switch op {
		case "bvadd":
			r.Add(x, y)
		case "bvsub":
			r.Sub(x, y)
		case "bvmul":
			r.Mul(x, y)
		case "bvand":
			r.And(x, y)
		case "bvor":
			r.Or(x, y)
		case "bvxor":
			r.Xor(x, y)
		case "bvshl":
			if y.Cmp(big.NewInt(int64(w))) >= 0 {
				r.SetInt64(0)
			} else {
				r.Lsh(x, uint(y.Int64()))
			}
		case "bvlshr":
			if y.Cmp(big.NewInt(int64(w))) >= 0 {
				r.SetInt64(0)
			} else {
				r.Rsh(x, uint(y.Int64()))
			}
		case "bvudiv":
			if y.Sign() == 0 {
				ok = false
			} else {
				r.Div(x, y)
			}
		case "bvurem":
			if y.Sign() == 0 {
				ok = false
			} else {
				r.Mod(x, y)
			}
		default:
			ok = false
		}
		if ok {
			return tb.BVC(r, w)
		}
	}
	zero := func(t *Term) bool { return t.IsConst() && t.Val.Sign() == 0 }
	switch op {
	case "bvadd", "bvor", "bvxor":
		if zero(a) {
			return b
		}
		if zero(b) {
			return a
		}
	case "bvsub", "bvshl", "bvlshr", "bvashr":
		if zero(b) {
			return a
		}
	case "bvand":
		if zero(a) {
			return a
		}
		if zero(b) {
			return b
		}
		if b.IsConst() && b.Val.Cmp(mask(w)) == 0 {
			return a
		}
		if a.IsConst() && a.Val.Cmp(mask(w)) == 0 {
			return b
		}
	}
	return tb.mk(op, a.Sort, "", nil, a, b)
}

func (tb *TB) BVCmp(op string, a, b *Term) *Term {
	if a.Sort != b.Sort {
		panic(fmt.Sprintf("bv cmp %s sort mismatch %s vs %s: %s / %s", op, a.Sort, b.Sort, tb.Show(a), tb.Show(b)))
	}
	if a.IsConst() && b.IsConst() {
		w := a.Sort.Width
		x, y := a.Val, b.Val
		switch op {
		case "bvslt", "bvsle":
			x, y = toSigned(x, w), toSigned(y, w)
		}
		c := x.Cmp(y)
		switch op {
		case "bvult", "bvslt":
			return tb.Bool(c < 0)
		case "bvule", "bvsle":
			return tb.Bool(c <= 0)
		}
	}
	return tb.mk(op, BoolSort, "", nil, a, b)
}

func (tb *TB) BVNot(a *Term) *Term {
	if a.IsConst() {
		return tb.BVC(new(big.Int).Xor(a.Val, mask(a.Sort.Width)), a.Sort.Width)
	}
	return tb.mk("bvnot", a.Sort, "", nil, a)
}

func (tb *TB) BVNeg(a *Term) *Term {
	if a.IsConst() {
		return tb.BVC(new(big.Int).Neg(a.Val), a.Sort.Width)
	}
	return tb.mk("bvneg", a.Sort, "", nil, a)
}

// BVResize converts a bit-vector to width w; signed selects sign extension.
func (tb *TB) BVResize(a *Term, w int, signed bool) *Term {
	aw := a.Sort.Width
	if aw == w {
		return a
	}
	if a.IsConst() {
		v := a.Val
		if signed {
			v = toSigned(v, aw)
		}
		return tb.BVC(v, w)
	}
	if w < aw {
		return tb.mk(fmt.Sprintf("(_ extract %d 0)", w-1), BVSort(w), "", nil, a)
	}
	if signed {
		return tb.mk(fmt.Sprintf("(_ sign_extend %d)", w-aw), BVSort(w), "", nil, a)
	}
	return tb.mk(fmt.Sprintf("(_ zero_extend %d)", w-aw), BVSort(w), "", nil, a)
}

// ---- quantifiers ----

func (tb *TB) Forall(vars []*Term, body *Term) *Term {
	if body.IsTrue() {
		return body
	}
	args := append([]*Term{body}, vars...)
	return tb.mk("forall", BoolSort, "", nil, args...)
}

func (tb *TB) Exists(vars []*Term, body *Term) *Term {
	if body.IsFalse() {
		return body
	}
	args := append([]*Term{body}, vars...)
	return tb.mk("exists", BoolSort, "", nil, args...)
}

// ---- printing ----

func constStr(t *Term) string {
	switch t.Sort.Kind {
	case SBool:
		if t.Val.Sign() != 0 {
			return "true"
		}
		return "false"
	case SInt:
		if t.Val.Sign() < 0 {
			return "(- " + new(big.Int).Neg(t.Val).String() + ")"
		}
		return t.Val.String()
	case SBV:
		return fmt.Sprintf("(_ bv%s %d)", t.Val.String(), t.Sort.Width)
	}
	return "?"
}

func smtName(n string) string { return "|" + n + "|" }

// Show renders a term without sharing (debugging, evidence samples).
func (tb *TB) Show(t *Term) string {
	var sb strings.Builder
	tb.show(&sb, t, 0)
	return sb.String()
}

func (tb *TB) show(sb *strings.Builder, t *Term, depth int) {
	if depth > 40 {
		sb.WriteString("...")
		return
	}
	switch {
	case t.Op == "var":
		sb.WriteString(t.Name)
	case t.Op == "const":
		sb.WriteString(constStr(t))
	default:
		op := t.Op
		if strings.HasPrefix(op, "uf:") {
			op = op[3:]
		}
		sb.WriteString("(" + op)
		for _, a := range t.Args {
			sb.WriteByte(' ')
			tb.show(sb, a, depth+1)
		}
		sb.WriteByte(')')
	}
}

// Script renders a satisfiability query for the conjunction of asserts.
// Shared sub-terms become define-fun definitions. Bound variables of
// quantifiers are never shared across the binder.
func (tb *TB) Script(asserts []*Term, wantModel bool, logic string) string {
	// collect reachable nodes, count references
	refs := map[int]int{}
	var order []*Term
	seen := map[int]bool{}
	hasBound := map[int]bool{} // term has a free occurrence of a bound var
	bound := map[int]bool{}
	var visit func(t *Term)
	visit = func(t *Term) {
		refs[t.ID]++
		if seen[t.ID] {
			return
		}
		seen[t.ID] = true
		if t.Op == "forall" || t.Op == "exists" {
			for _, v := range t.Args[1:] {
				bound[v.ID] = true
			}
		}
		for _, a := range t.Args {
			visit(a)
		}
		order = append(order, t)
	}
	for _, a := range asserts {
		visit(a)
	}
	freeB := map[int]map[int]bool{}
	for _, t := range order { // children first
		if bound[t.ID] {
			freeB[t.ID] = map[int]bool{t.ID: true}
			hasBound[t.ID] = true
			continue
		}
		var fs map[int]bool
		for _, a := range t.Args {
			for v := range freeB[a.ID] {
				if fs == nil {
					fs = map[int]bool{}
				}
				fs[v] = true
			}
		}
		if t.Op == "forall" || t.Op == "exists" {
			for _, v := range t.Args[1:] {
				delete(fs, v.ID)
			}
		}
		if len(fs) > 0 {
			freeB[t.ID] = fs
			hasBound[t.ID] = true
		}
	}
	var sb strings.Builder
	if wantModel {
		sb.WriteString("(set-option :produce-models true)\n")
	}
	if logic != "" {
		sb.WriteString("(set-logic " + logic + ")\n")
	}
	// declarations
	var vars []*Term
	usedUF := map[string]bool{}
	for _, t := range order {
		if t.Op == "var" && !bound[t.ID] {
			vars = append(vars, t)
		}
		if strings.HasPrefix(t.Op, "uf:") {
			usedUF[t.Name] = true
		}
	}
	sort.Slice(vars, func(i, j int) bool { return vars[i].Name < vars[j].Name })
	for _, v := range vars {
		fmt.Fprintf(&sb, "(declare-fun %s () %s)\n", smtName(v.Name), v.Sort)
	}
	var ufn []string
	for n := range usedUF {
		ufn = append(ufn, n)
	}
	sort.Strings(ufn)
	for _, n := range ufn {
		d := tb.ufs[n]
		var as []string
		for _, a := range d.args {
			as = append(as, a.String())
		}
		fmt.Fprintf(&sb, "(declare-fun %s (%s) %s)\n", smtName(n), strings.Join(as, " "), d.res)
	}
	defined := map[int]string{}
	var caAxioms, caDecls []string
	var render func(t *Term) string
	render = func(t *Term) string {
		if n, ok := defined[t.ID]; ok {
			return n
		}
		switch {
		case t.Op == "copyarr":
			// array-level copy that survived to the output: a fresh array with its defining axiom
			n := fmt.Sprintf("|ca!%d|", t.ID)
			defined[t.ID] = n
			d, do, sa, so, cnt := render(t.Args[0]), render(t.Args[1]), render(t.Args[2]), render(t.Args[3]), render(t.Args[4])
			is := t.Args[1].Sort
			le, lt, add, sub := "<=", "<", "+", "-"
			if is.Kind == SBV {
				le, lt, add, sub = "bvsle", "bvslt", "bvadd", "bvsub"
			}
			caDecls = append(caDecls, fmt.Sprintf("(declare-fun %s () %s)\n", n, t.Sort))
			caAxioms = append(caAxioms, fmt.Sprintf("(assert (forall ((ci %s)) (! (= (select %s ci) (ite (and (%s %s ci) (%s ci (%s %s %s))) (select %s (%s (%s ci %s) %s)) (select %s ci))) :pattern ((select %s ci)))))\n",
				is, n, le, do, lt, add, do, cnt, sa, add, sub, do, so, d, n))
			return n
		case t.Op == "var":
			return smtName(t.Name)
		case t.Op == "const":
			return constStr(t)
		case t.Op == "constarr":
			return fmt.Sprintf("((as const %s) %s)", t.Sort, render(t.Args[0]))
		case t.Op == "forall" || t.Op == "exists":
			var vs []string
			for _, v := range t.Args[1:] {
				vs = append(vs, fmt.Sprintf("(%s %s)", smtName(v.Name), v.Sort))
			}
			return fmt.Sprintf("(%s (%s) %s)", t.Op, strings.Join(vs, " "), render(t.Args[0]))
		}
		op := t.Op
		if strings.HasPrefix(op, "uf:") {
			op = smtName(t.Name)
		}
		parts := make([]string, 0, len(t.Args)+1)
		parts = append(parts, op)
		for _, a := range t.Args {
			parts = append(parts, render(a))
		}
		return "(" + strings.Join(parts, " ") + ")"
	}
	var body strings.Builder
	for _, t := range order {
		if t.Op == "var" || t.Op == "const" || hasBound[t.ID] {
			continue
		}
		if t.Op == "copyarr" {
			render(t)
			continue
		}
		if refs[t.ID] > 1 {
			s := render(t)
			n := fmt.Sprintf("t%d", t.ID)
			fmt.Fprintf(&body, "(define-fun %s () %s %s)\n", n, t.Sort, s)
			defined[t.ID] = n
		}
	}
	for _, a := range asserts {
		fmt.Fprintf(&body, "(assert %s)\n", render(a))
	}
	// copyarr constants are declared up front; their axioms mention defined names, so they follow the definitions.
	// A definition may mention a ca constant, hence declarations first.
	for _, d := range caDecls {
		sb.WriteString(d)
	}
	sb.WriteString(body.String())
	if !tb.dropCaAxioms {
		for _, a := range caAxioms {
			sb.WriteString(a)
		}
	}
	sb.WriteString("(check-sat)\n")
	if wantModel {
		sb.WriteString("(get-model)\n")
	}
	return sb.String()
}

// Select reads an array element, pushing the read through store / ite /
// constant arrays / array copies so that array-level operators disappear.
func (tb *TB) Select(a, i *Term) *Term {
	if tb.selMemo == nil {
		tb.selMemo = map[[2]int]*Term{}
	}
	key := [2]int{a.ID, i.ID}
	if r, ok := tb.selMemo[key]; ok {
		return r
	}
	r := tb.select0(a, i)
	tb.selMemo[key] = r
	return r
}

func (tb *TB) idxLe(a, b *Term) *Term {
	if a.Sort.Kind == SBV {
		return tb.BVCmp("bvsle", a, b)
	}
	return tb.Le(a, b)
}
func (tb *TB) idxLt(a, b *Term) *Term {
	if a.Sort.Kind == SBV {
		return tb.BVCmp("bvslt", a, b)
	}
	return tb.Lt(a, b)
}
func (tb *TB) idxAdd(a, b *Term) *Term {
	if a.Sort.Kind == SBV {
		return tb.BVBin("bvadd", a, b)
	}
	return tb.Add(a, b)
}
func (tb *TB) idxSub(a, b *Term) *Term {
	if a.Sort.Kind == SBV {
		return tb.BVBin("bvsub", a, b)
	}
	return tb.Sub(a, b)
}

func (tb *TB) select0(a, i *Term) *Term {
	switch a.Op {
	case "store":
		j := a.Args[1]
		if j == i {
			return a.Args[2]
		}
		if j.IsConst() && i.IsConst() {
			return tb.Select(a.Args[0], i)
		}
		return tb.Ite(tb.Eq(i, j), a.Args[2], tb.Select(a.Args[0], i))
	case "ite":
		return tb.Ite(a.Args[0], tb.Select(a.Args[1], i), tb.Select(a.Args[2], i))
	case "constarr":
		return a.Args[0]
	case "copyarr":
		// copyarr(dst, dstOff, src, srcOff, n)
		d, do, s, so, n := a.Args[0], a.Args[1], a.Args[2], a.Args[3], a.Args[4]
		in := tb.And(tb.idxLe(do, i), tb.idxLt(i, tb.idxAdd(do, n)))
		return tb.Ite(in, tb.Select(s, tb.idxAdd(tb.idxSub(i, do), so)), tb.Select(d, i))
	}
	return tb.selectRaw(a, i)
}

func (tb *TB) nextID() int {
	tb.next++
	return tb.next
}
