package main

// Go integer semantics in the two arithmetic modes (DESIGN.md 2.2).
//  mode int: Go ints are SMT Int; unsigned arithmetic wraps exactly (mod 2^w),
//            signed arithmetic is mathematical with an overflow obligation.
//  mode bv : every Go integer is a bit-vector of its width.

import (
	"fmt"
	"go/token"
	"go/types"
	"math/big"
)

// wrap reduces an Int-mode result to the range of unsigned type t.
func (x *FnCtx) wrapUnsigned(v *Term, w int) *Term {
	if v.IsConst() {
		return x.tb.IntB(new(big.Int).Mod(v.Val, pow2(w)))
	}
	return x.tb.Mod(v, x.tb.IntB(pow2(w)))
}

// knownBelow reports an upper bound 2^k > v for Int-mode terms when cheaply known.
func (x *FnCtx) bitsOf(v *Term) int {
	if b, ok := x.bits[v.ID]; ok {
		return b
	}
	if v.IsConst() && v.Val.Sign() >= 0 {
		return v.Val.BitLen()
	}
	return -1
}

func (x *FnCtx) setBits(v *Term, b int) *Term {
	if b >= 0 && !v.IsConst() {
		if old, ok := x.bits[v.ID]; !ok || b < old {
			x.bits[v.ID] = b
		}
	}
	return v
}

// trailing zero bits known for Int-mode terms
func (x *FnCtx) tzOf(v *Term) int {
	if z, ok := x.tz[v.ID]; ok {
		return z
	}
	if v.IsConst() {
		if v.Val.Sign() == 0 {
			return 64
		}
		return int(v.Val.TrailingZeroBits())
	}
	return 0
}

func constShift(b *Term) (int, bool) {
	if b.IsConst() && b.Val.IsInt64() && b.Val.Int64() >= 0 && b.Val.Int64() < 1024 {
		return int(b.Val.Int64()), true
	}
	return 0, false
}

// binop evaluates a Go binary operator on operands of type t (result type rt).
// shiftT is the type of the shift count for << and >>.
func (x *FnCtx) binop(op token.Token, a, b *Term, t types.Type, bt types.Type, site string, st *State) Value {
	tb := x.tb
	if isBool(t) {
		switch op {
		case token.LAND:
			return tb.And(a, b)
		case token.LOR:
			return tb.Or(a, b)
		case token.EQL:
			return tb.Eq(a, b)
		case token.NEQ:
			return tb.Ne(a, b)
		}
	}
	w, signed, isInt := intInfo(t)
	if !isInt {
		switch op {
		case token.EQL:
			return tb.Eq(a, b)
		case token.NEQ:
			return tb.Ne(a, b)
		case token.ADD:
			if isString(t) {
				r := tb.UF("gstr.concat", IntSort, a, b)
				// |a + b| = |a| + |b|, lengths are non-negative
				la, lb := tb.UF("gstr.len", x.intSort(), a), tb.UF("gstr.len", x.intSort(), b)
				x.axiom(tb.Eq(tb.UF("gstr.len", x.intSort(), r), x.iadd(la, lb)))
				x.axiom(x.le(x.idx(0), la))
				x.axiom(x.le(x.idx(0), lb))
				// the last |b| characters of a + b are b
				x.axiom(tb.Eq(tb.UF("uf_strlast", IntSort, r, x.toInt(lb)), b))
				return r
			}
		}
		x.abstracted(fmt.Sprintf("binary %s on %s", op, t))
		return x.freshOf("unk_binop", t)
	}
	if x.bv {
		return x.binopBV(op, a, b, w, signed, bt, site, st)
	}
	// ---- mode int ----
	signedRes := func(v *Term) *Term {
		if site != "" && st != nil {
			lo, hi, _ := x.intRange(t)
			x.optionalOb("ovf", site, st, tb.And(tb.Le(tb.IntB(lo), v), tb.Le(v, tb.IntB(hi))))
		}
		return v
	}
	switch op {
	case token.ADD:
		r := tb.Add(a, b)
		if signed {
			return signedRes(r)
		}
		ba, bb := x.bitsOf(a), x.bitsOf(b)
		if ba >= 0 && bb >= 0 && max(ba, bb)+1 <= w {
			return x.setBits(r, max(ba, bb)+1)
		}
		return x.wrapUnsigned(r, w)
	case token.SUB:
		r := tb.Sub(a, b)
		if signed {
			return signedRes(r)
		}
		return x.wrapUnsigned(r, w)
	case token.MUL:
		r := tb.Mul(a, b)
		if signed {
			return signedRes(r)
		}
		ba, bb := x.bitsOf(a), x.bitsOf(b)
		if ba >= 0 && bb >= 0 && ba+bb <= w {
			return x.setBits(r, ba+bb)
		}
		return x.wrapUnsigned(r, w)
	case token.QUO, token.REM:
		if site != "" && st != nil {
			x.safetyOb("div", site, st, tb.Ne(b, tb.IntC(0)))
		}
		if !b.IsConst() || b.Val.Sign() <= 0 {
			if !signed {
				if op == token.QUO {
					return tb.Div(a, b)
				}
				return tb.Mod(a, b)
			}
			// signed, variable divisor: exact where both operands are non-negative and the divisor is
			// positive (SMT div/mod agree with Go there); unknown otherwise
			u := x.freshOf("unk_div", t).(*Term)
			nonneg := tb.And(tb.Le(tb.IntC(0), a), tb.Lt(tb.IntC(0), b))
			if op == token.QUO {
				return tb.Ite(nonneg, tb.Div(a, b), u)
			}
			return tb.Ite(nonneg, tb.Mod(a, b), u)
		}
		if !signed {
			if op == token.QUO {
				return x.setBits(tb.Div(a, b), x.bitsOf(a))
			}
			return x.setBits(tb.Mod(a, b), b.Val.BitLen())
		}
		// Go truncates toward zero
		q := tb.Ite(tb.Le(tb.IntC(0), a), tb.Div(a, b), tb.Neg(tb.Div(tb.Neg(a), b)))
		if op == token.QUO {
			return q
		}
		return tb.Sub(a, tb.Mul(q, b))
	case token.AND:
		// x & (2^k-1)  ==  x mod 2^k
		for _, p := range [][2]*Term{{a, b}, {b, a}} {
			if m := p[1]; m.IsConst() && m.Val.Sign() >= 0 {
				k := new(big.Int).Add(m.Val, big.NewInt(1))
				if k.BitLen()-1 == m.Val.BitLen() && new(big.Int).And(k, m.Val).Sign() == 0 { // m = 2^j - 1
					if bb := x.bitsOf(p[0]); bb >= 0 && bb <= m.Val.BitLen() {
						return p[0]
					}
					return x.setBits(tb.Mod(p[0], tb.IntB(k)), m.Val.BitLen())
				}
				// single-bit or shifted mask  m = (2^j-1) << s
				s := int(m.Val.TrailingZeroBits())
				if m.Val.Sign() > 0 {
					hi := new(big.Int).Rsh(m.Val, uint(s))
					k2 := new(big.Int).Add(hi, big.NewInt(1))
					if new(big.Int).And(k2, hi).Sign() == 0 {
						// ((x div 2^s) mod 2^j) * 2^s
						r := tb.Mul(tb.Mod(tb.Div(p[0], tb.IntB(pow2(s))), tb.IntB(k2)), tb.IntB(pow2(s)))
						x.tz[r.ID] = s
						return x.setBits(r, m.Val.BitLen())
					}
				}
			}
		}
		// x & c with a constant of few set bits: sum of the selected bits
		for _, p := range [][2]*Term{{a, b}, {b, a}} {
			c := p[1]
			if !c.IsConst() || c.Val.Sign() < 0 || signed {
				continue
			}
			pop := 0
			for k := 0; k < c.Val.BitLen(); k++ {
				if c.Val.Bit(k) == 1 {
					pop++
				}
			}
			if pop > 10 {
				continue
			}
			r := tb.IntC(0)
			for k := 0; k < c.Val.BitLen(); k++ {
				if c.Val.Bit(k) == 1 {
					r = tb.Add(r, tb.Mul(tb.Mod(tb.Div(p[0], tb.IntB(pow2(k))), tb.IntC(2)), tb.IntB(pow2(k))))
				}
			}
			return x.setBits(r, c.Val.BitLen())
		}
		// x & y on unsigned operands: uninterpreted, bounded by both operands
		if !signed {
			r := tb.UF("bitand", IntSort, a, b)
			x.axiom(tb.And(tb.Le(tb.IntC(0), r), tb.Le(r, a), tb.Le(r, b)))
			return r
		}
	case token.OR, token.XOR:
		// disjoint bits: a has tz >= k and b < 2^k  =>  a + b
		for _, p := range [][2]*Term{{a, b}, {b, a}} {
			if bb := x.bitsOf(p[1]); bb >= 0 && x.tzOf(p[0]) >= bb {
				r := tb.Add(p[0], p[1])
				ba := x.bitsOf(p[0])
				if ba >= 0 {
					x.setBits(r, max(ba, bb))
				}
				x.tz[r.ID] = min(x.tzOf(p[0]), x.tzOf(p[1]))
				return r
			}
		}
		if a.IsConst() && b.IsConst() {
			if op == token.OR {
				return tb.IntB(new(big.Int).Or(a.Val, b.Val))
			}
			return tb.IntB(new(big.Int).Xor(a.Val, b.Val))
		}
		// x | c, x ^ c with a constant of few set bits: exact, bit by bit
		for _, p := range [][2]*Term{{a, b}, {b, a}} {
			c := p[1]
			if !c.IsConst() || c.Val.Sign() < 0 || c.Val.BitLen() > w {
				continue
			}
			pop := 0
			for k := 0; k < c.Val.BitLen(); k++ {
				if c.Val.Bit(k) == 1 {
					pop++
				}
			}
			if pop > 8 || signed {
				continue
			}
			r := p[0]
			for k := 0; k < c.Val.BitLen(); k++ {
				if c.Val.Bit(k) == 0 {
					continue
				}
				bit := tb.Mod(tb.Div(p[0], tb.IntB(pow2(k))), tb.IntC(2))
				if op == token.OR {
					r = tb.Add(r, tb.Ite(tb.Eq(bit, tb.IntC(1)), tb.IntC(0), tb.IntB(pow2(k))))
				} else {
					r = tb.Add(r, tb.Ite(tb.Eq(bit, tb.IntC(1)), tb.IntB(new(big.Int).Neg(pow2(k))), tb.IntB(pow2(k))))
				}
			}
			if bb := x.bitsOf(p[0]); bb >= 0 {
				x.setBits(r, max(bb, c.Val.BitLen()))
			} else {
				x.setBits(r, w)
			}
			return r
		}
	case token.SHL:
		if k, ok := constShift(b); ok {
			r := tb.Mul(a, tb.IntB(pow2(k)))
			if signed {
				return signedRes(r)
			}
			ba := x.bitsOf(a)
			if ba >= 0 && ba+k <= w {
				x.setBits(r, ba+k)
			} else {
				r = x.wrapUnsigned(r, w)
			}
			x.tz[r.ID] = k + x.tzOf(a)
			return r
		}
		// a << n with variable n: uninterpreted power of two with its values as facts
		return x.pow2Shift(a, b, w, signed, t)
	case token.SHR:
		if k, ok := constShift(b); ok {
			r := tb.Div(a, tb.IntB(pow2(k)))
			if ba := x.bitsOf(a); ba >= 0 {
				x.setBits(r, max(ba-k, 0))
			} else if !signed {
				x.setBits(r, max(w-k, 0))
			}
			return r
		}
	case token.AND_NOT:
		if b.IsConst() && !signed {
			nm := new(big.Int).Xor(b.Val, mask(w))
			return x.binop(token.AND, a, tb.IntB(nm), t, bt, site, st)
		}
	case token.EQL:
		return tb.Eq(a, b)
	case token.NEQ:
		return tb.Ne(a, b)
	case token.LSS:
		return tb.Lt(a, b)
	case token.LEQ:
		return tb.Le(a, b)
	case token.GTR:
		return tb.Gt(a, b)
	case token.GEQ:
		return tb.Ge(a, b)
	}
	x.abstracted(fmt.Sprintf("mode int: %s on %s (needs mode bv)", op, t))
	return x.freshOf("unk_bitop", t)
}

// pow2Shift models c << n in mode int with an uninterpreted pow2 and its basic facts.
func (x *FnCtx) pow2Shift(c, n *Term, w int, signed bool, t types.Type) *Term {
	tb := x.tb
	p := tb.UF("pow2", IntSort, n)
	x.axiom(tb.Lt(tb.IntC(0), p))
	for k := 0; k <= 64; k += 1 {
		if k > 40 && k != 63 && k != 64 {
			continue
		}
		x.axiom(tb.Implies(tb.Eq(n, tb.IntC(int64(k))), tb.Eq(p, tb.IntB(pow2(k)))))
	}
	r := tb.Mul(c, p)
	if !signed {
		return tb.Ite(tb.Lt(n, tb.IntC(int64(w))), x.wrapUnsigned(r, w), tb.IntC(0))
	}
	return r
}

func (x *FnCtx) binopBV(op token.Token, a, b *Term, w int, signed bool, bt types.Type, site string, st *State) Value {
	tb := x.tb
	shiftCount := func() *Term {
		// Go: shift count is unsigned (or non-negative); counts >= w give 0 / sign fill
		bw, bs, _ := intInfo(bt)
		_ = bw
		return tb.BVResize(b, maxInt(w, b.Sort.Width), bs && false)
	}
	// signed 64-bit counters: as in mode int, overflow is an (optional) obligation and is assumed absent
	noOvf := func(r *Term, pred *Term) *Term {
		if signed && w == 64 && site != "" && st != nil && !r.IsConst() {
			x.optionalOb("ovf", site, st, pred)
			st.pc = tb.And(st.pc, pred)
		}
		return r
	}
	zero := tb.BVC(bigZero, w)
	switch op {
	case token.ADD:
		r := tb.BVBin("bvadd", a, b)
		if signed && w == 64 {
			an, bn, rn := tb.BVCmp("bvslt", a, zero), tb.BVCmp("bvslt", b, zero), tb.BVCmp("bvslt", r, zero)
			return noOvf(r, tb.Not(tb.Or(tb.And(tb.Not(an), tb.Not(bn), rn), tb.And(an, bn, tb.Not(rn)))))
		}
		return r
	case token.SUB:
		r := tb.BVBin("bvsub", a, b)
		if signed && w == 64 {
			an, bn, rn := tb.BVCmp("bvslt", a, zero), tb.BVCmp("bvslt", b, zero), tb.BVCmp("bvslt", r, zero)
			return noOvf(r, tb.Not(tb.Or(tb.And(tb.Not(an), bn, rn), tb.And(an, tb.Not(bn), tb.Not(rn)))))
		}
		return r
	case token.MUL:
		return tb.BVBin("bvmul", a, b)
	case token.QUO, token.REM:
		if site != "" && st != nil {
			x.safetyOb("div", site, st, tb.Ne(b, tb.BVC(big.NewInt(0), w)))
		}
		if signed {
			if op == token.QUO {
				return tb.BVBin("bvsdiv", a, b)
			}
			return tb.BVBin("bvsrem", a, b)
		}
		if op == token.QUO {
			return tb.BVBin("bvudiv", a, b)
		}
		return tb.BVBin("bvurem", a, b)
	case token.AND:
		return tb.BVBin("bvand", a, b)
	case token.OR:
		return tb.BVBin("bvor", a, b)
	case token.XOR:
		return tb.BVBin("bvxor", a, b)
	case token.AND_NOT:
		return tb.BVBin("bvand", a, tb.BVNot(b))
	case token.SHL, token.SHR:
		cnt := shiftCount()
		cw := cnt.Sort.Width
		aa := a
		if cw > w {
			aa = tb.BVResize(a, cw, signed)
		}
		var r *Term
		if op == token.SHL {
			r = tb.BVBin("bvshl", aa, cnt)
		} else if signed {
			r = tb.BVBin("bvashr", aa, cnt)
		} else {
			r = tb.BVBin("bvlshr", aa, cnt)
		}
		if cw > w {
			// SMT shifts by >= width give 0 (or sign) on the widened value; truncating is exact
			r = tb.BVResize(r, w, false)
		}
		return r
	case token.EQL:
		return tb.Eq(a, b)
	case token.NEQ:
		return tb.Ne(a, b)
	case token.LSS:
		if signed {
			return tb.BVCmp("bvslt", a, b)
		}
		return tb.BVCmp("bvult", a, b)
	case token.LEQ:
		if signed {
			return tb.BVCmp("bvsle", a, b)
		}
		return tb.BVCmp("bvule", a, b)
	case token.GTR:
		if signed {
			return tb.BVCmp("bvslt", b, a)
		}
		return tb.BVCmp("bvult", b, a)
	case token.GEQ:
		if signed {
			return tb.BVCmp("bvsle", b, a)
		}
		return tb.BVCmp("bvule", b, a)
	}
	x.abstracted(fmt.Sprintf("mode bv: unsupported operator %s", op))
	return tb.Fresh("unk_bvop", BVSort(w))
}

func maxInt(a, b int) int {
	if a > b {
		return a
	}
	return b
}

// convert implements Go integer conversion from type ft to type tt.
func (x *FnCtx) convert(v *Term, ft, tt types.Type) *Term {
	tb := x.tb
	fw, fs, fok := intInfo(ft)
	tw, ts, tok := intInfo(tt)
	if !fok || !tok {
		if x.sortOf(tt) == v.Sort {
			return v
		}
		x.abstracted(fmt.Sprintf("conversion %s -> %s", ft, tt))
		return x.freshOf("unk_conv", tt).(*Term)
	}
	if x.bv {
		return tb.BVResize(v, tw, fs)
	}
	// mode int: value v is in range of ft
	if fs == ts && tw >= fw {
		return v
	}
	if !fs && ts && tw > fw {
		return v
	}
	if !ts {
		// to unsigned: reduce modulo 2^tw
		if !fs && tw >= fw {
			return v
		}
		if b := x.bitsOf(v); b >= 0 && b <= tw {
			return v
		}
		r := x.wrapUnsigned(v, tw)
		return x.setBits(r, tw)
	}
	// to signed, narrowing or from unsigned of same/larger width
	m := x.wrapUnsigned(v, tw)
	if b := x.bitsOf(v); b >= 0 && b < tw {
		return v
	}
	return tb.Ite(tb.Lt(m, tb.IntB(pow2(tw-1))), m, tb.Sub(m, tb.IntB(pow2(tw))))
}

func (x *FnCtx) unop(op token.Token, a *Term, t types.Type, site string, st *State) Value {
	tb := x.tb
	switch op {
	case token.NOT:
		return tb.Not(a)
	case token.SUB:
		w, signed, ok := intInfo(t)
		if !ok {
			break
		}
		if x.bv {
			return tb.BVNeg(a)
		}
		if signed {
			return tb.Neg(a)
		}
		return x.wrapUnsigned(tb.Neg(a), w)
	case token.XOR:
		w, signed, ok := intInfo(t)
		if !ok {
			break
		}
		if x.bv {
			return tb.BVNot(a)
		}
		if signed {
			return tb.Sub(tb.Neg(a), tb.IntC(1))
		}
		return tb.Sub(tb.IntB(mask(w)), a)
	}
	x.abstracted(fmt.Sprintf("unary %s on %s", op, t))
	return x.freshOf("unk_unop", t)
}
