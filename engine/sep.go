package main

// C14: separation of instances. For every function of the library packages a frame obligation over
// package-level state is generated from the SSA: the function stores to no package-level variable,
// writes through no reference obtained from one, lets no such reference escape into instance state,
// and uses no source of nondeterminism. The obligations are syntactic (decided by the generator's
// data-flow pass, no SMT query is needed); exceptions are listed, with their justification, in
// spec/c14_allow.txt and are reported as assumptions.

import (
	"fmt"
	"go/token"
	"go/types"
	"os"
	"path/filepath"
	"sort"
	"strings"
	"time"

	"golang.org/x/tools/go/ssa"
	"golang.org/x/tools/go/ssa/ssautil"
)

type sepFinding struct {
	Fn     string
	Kind   string // global-write, write-through-global, global-ref-escapes, global-ref-passed, nondeterminism
	What   string
	Pos    string
	Global string
}

func (f sepFinding) obName() string {
	g := f.Global
	if g == "" {
		g = f.What
	}
	return fmt.Sprintf("C14/%s/%s:%s", shortFn(f.Fn), f.Kind, g)
}

var sepLibPkgs = []string{modulePath, modulePath + "/lzma", modulePath + "/internal/hash"}

func sepInLib(p *types.Package) bool {
	if p == nil {
		return false
	}
	for _, l := range sepLibPkgs {
		if p.Path() == l {
			return true
		}
	}
	return false
}

// mutableRef: values of this type can be used to change shared memory.
func mutableRef(t types.Type) bool {
	if t == nil {
		return false
	}
	if types.Identical(t, types.Universe.Lookup("error").Type()) {
		return false // error sentinels are immutable values
	}
	switch u := t.Underlying().(type) {
	case *types.Pointer, *types.Slice, *types.Map, *types.Chan, *types.Signature, *types.Interface:
		return true
	case *types.Struct:
		for i := 0; i < u.NumFields(); i++ {
			if mutableRef(u.Field(i).Type()) {
				return true
			}
		}
	case *types.Array:
		return mutableRef(u.Elem())
	}
	return false
}

type sepAllow struct {
	fn, kind, global, reason string
	used                     bool
}

func readSepAllow(dir string) []*sepAllow {
	var out []*sepAllow
	data, err := os.ReadFile(filepath.Join(dir, "c14_allow.txt"))
	if err != nil {
		return nil
	}
	for _, l := range strings.Split(string(data), "\n") {
		l = strings.TrimSpace(l)
		if l == "" || strings.HasPrefix(l, "#") {
			continue
		}
		reason := ""
		if i := strings.Index(l, " -- "); i >= 0 {
			reason = strings.TrimSpace(l[i+4:])
			l = l[:i]
		}
		f := strings.Fields(l)
		if len(f) == 4 && f[0] == "allow" {
			out = append(out, &sepAllow{fn: f[1], kind: f[2], global: f[3], reason: reason})
		}
	}
	return out
}

func globalName(g *ssa.Global) string {
	return strings.TrimPrefix(strings.TrimPrefix(g.Pkg.Pkg.Path(), modulePath+"/"), modulePath) + "." + g.Name()
}

// sepScanFunction runs the data-flow pass on one function.
func (e *Engine) sepScanFunction(fn *ssa.Function) []sepFinding {
	var out []sepFinding
	key := funcKey(fn)
	isInit := fn.Name() == "init" || strings.HasPrefix(fn.Name(), "init#") || fn.Synthetic != ""
	pos := func(in ssa.Instruction) string {
		p := in.Pos()
		if !p.IsValid() {
			return ""
		}
		pp := e.prog.Fset.Position(p)
		return fmt.Sprintf("%s:%d", shortKey(pp.Filename), pp.Line)
	}
	// taint: value -> the global it derives from
	taint := map[ssa.Value]*ssa.Global{}
	cellTaint := map[*ssa.Alloc]*ssa.Global{}
	src := func(v ssa.Value) *ssa.Global {
		if g, ok := v.(*ssa.Global); ok {
			return g
		}
		return taint[v]
	}
	changed := true
	for iter := 0; changed && iter < 20; iter++ {
		changed = false
		set := func(v ssa.Value, g *ssa.Global) {
			if g != nil && taint[v] == nil {
				taint[v] = g
				changed = true
			}
		}
		for _, b := range fn.Blocks {
			for _, in := range b.Instrs {
				switch v := in.(type) {
				case *ssa.UnOp:
					if v.Op == token.MUL {
						if a, ok := v.X.(*ssa.Alloc); ok {
							if g := cellTaint[a]; g != nil && mutableRef(v.Type()) {
								set(v, g)
							}
						} else if g := src(v.X); g != nil && mutableRef(v.Type()) {
							set(v, g)
						}
					}
				case *ssa.FieldAddr:
					set(v, src(v.X))
				case *ssa.IndexAddr:
					set(v, src(v.X))
				case *ssa.Field:
					if mutableRef(v.Type()) {
						set(v, src(v.X))
					}
				case *ssa.Index:
					if mutableRef(v.Type()) {
						set(v, src(v.X))
					}
				case *ssa.Slice:
					set(v, src(v.X))
				case *ssa.ChangeType:
					set(v, src(v.X))
				case *ssa.ChangeInterface:
					set(v, src(v.X))
				case *ssa.Convert:
					if mutableRef(v.Type()) {
						set(v, src(v.X))
					}
				case *ssa.MakeInterface:
					if mutableRef(v.X.Type()) {
						set(v, src(v.X))
					}
				case *ssa.TypeAssert:
					set(v, src(v.X))
				case *ssa.Extract:
					if mutableRef(v.Type()) {
						set(v, src(v.Tuple))
					}
				case *ssa.Lookup:
					if mutableRef(v.Type()) || v.CommaOk {
						set(v, src(v.X))
					}
				case *ssa.Phi:
					for _, ed := range v.Edges {
						set(v, src(ed))
					}
				case *ssa.Store:
					if a, ok := v.Addr.(*ssa.Alloc); ok {
						if g := src(v.Val); g != nil && cellTaint[a] == nil && mutableRef(v.Val.Type()) {
							cellTaint[a] = g
							changed = true
						}
					}
				}
			}
		}
	}
	add := func(kind, what string, in ssa.Instruction, g *ssa.Global) {
		f := sepFinding{Fn: key, Kind: kind, What: what, Pos: pos(in)}
		if g != nil {
			f.Global = globalName(g)
		}
		out = append(out, f)
	}
	nondetPkgs := map[string]bool{"time": true, "math/rand": true, "math/rand/v2": true, "os": true, "runtime": true, "crypto/rand": true, "sync": true, "sync/atomic": true, "os/signal": true}
	for _, b := range fn.Blocks {
		for _, in := range b.Instrs {
			switch v := in.(type) {
			case *ssa.Store:
				if g, ok := v.Addr.(*ssa.Global); ok {
					if !isInit {
						add("global-write", "store to package-level variable", in, g)
					}
					continue
				}
				if _, isLocal := v.Addr.(*ssa.Alloc); isLocal {
					continue
				}
				if g := src(v.Addr); g != nil && !isInit {
					add("write-through-global", "store through a reference derived from a package-level variable", in, g)
				}
				if g := src(v.Val); g != nil && mutableRef(v.Val.Type()) && !isInit {
					add("global-ref-escapes", "a reference obtained from a package-level variable is stored into an object", in, g)
				}
			case *ssa.MapUpdate:
				if g := src(v.Map); g != nil && !isInit {
					add("write-through-global", "update of a package-level map", in, g)
				}
			case *ssa.Return:
				for _, r := range v.Results {
					if g := src(r); g != nil && mutableRef(r.Type()) && !isInit {
						add("global-ref-escapes", "a reference obtained from a package-level variable is returned", in, g)
					}
				}
			case *ssa.MakeClosure:
				for _, bnd := range v.Bindings {
					if g := src(bnd); g != nil && !isInit {
						if _, isAlloc := bnd.(*ssa.Alloc); !isAlloc {
							add("global-ref-escapes", "a reference obtained from a package-level variable is captured by a closure", in, g)
						}
					}
				}
			case *ssa.Go:
				add("nondeterminism", "go statement", in, nil)
			case *ssa.Select:
				add("nondeterminism", "select statement", in, nil)
			case *ssa.Range:
				if _, isMap := v.X.Type().Underlying().(*types.Map); isMap {
					add("nondeterminism", "iteration over a map", in, nil)
				}
			}
			var cc *ssa.CallCommon
			switch v := in.(type) {
			case *ssa.Call:
				cc = v.Common()
			case *ssa.Defer:
				cc = v.Common()
			case *ssa.Go:
				cc = v.Common()
			}
			if cc == nil {
				continue
			}
			if bi, ok := cc.Value.(*ssa.Builtin); ok {
				switch bi.Name() {
				case "copy", "append":
					if g := src(cc.Args[0]); g != nil && !isInit {
						add("write-through-global", bi.Name()+" into a slice derived from a package-level variable", in, g)
					}
				case "delete", "clear":
					if g := src(cc.Args[0]); g != nil && !isInit {
						add("write-through-global", bi.Name()+" on a package-level map", in, g)
					}
				}
				continue
			}
			calleeKey := calleeName(cc)
			if f, ok := cc.Value.(*ssa.Function); ok {
				calleeKey = funcKey(f)
				if f.Pkg != nil && nondetPkgs[f.Pkg.Pkg.Path()] {
					add("nondeterminism", "call into package "+f.Pkg.Pkg.Path()+": "+f.Name(), in, nil)
				}
			}
			if isInit {
				continue
			}
			args := cc.Args
			if cc.IsInvoke() {
				if g := src(cc.Value); g != nil {
					add("global-ref-passed", "method call on a value obtained from a package-level variable: "+calleeKey, in, g)
				}
			}
			for _, a := range args {
				if g := src(a); g != nil && mutableRef(a.Type()) {
					add("global-ref-passed", "a reference obtained from a package-level variable is passed to "+calleeKey, in, g)
				}
			}
		}
	}
	return out
}

// cmdCheckC14 decides C14's separation obligations.
func cmdCheckC14(repo, spec, tier string) int {
	start := time.Now()
	prop := "C14"
	evPath := filepath.Join(verifDir(), "evidence", prop+".json")
	os.MkdirAll(filepath.Dir(evPath), 0755)
	replayDir := filepath.Join(verifDir(), "replay", prop)
	os.RemoveAll(replayDir)
	os.MkdirAll(replayDir, 0755)
	violations := 0
	report := func(ob, body string) {
		violations++
		p := filepath.Join(replayDir, sanitize(strings.TrimPrefix(ob, "C14/"))+".txt")
		os.WriteFile(p, []byte("obligation: "+ob+"\n"+body), 0644)
		fmt.Printf("VIOLATION property=%s replay=%s obligation=%s no-failing-input-found\n", prop, p, ob)
	}
	eng, err := NewEngine(repo, spec)
	if err != nil {
		report("C14/load", "The repository could not be loaded:\n"+err.Error()+"\n")
		return 1
	}
	allow := readSepAllow(spec)
	var fns []*ssa.Function
	for fn := range ssautil.AllFunctions(eng.prog) {
		p := pkgOf(fn)
		if !sepInLib(p) || len(fn.Blocks) == 0 {
			continue
		}
		fns = append(fns, fn)
	}
	sort.Slice(fns, func(i, j int) bool { return funcKey(fns[i]) < funcKey(fns[j]) })
	nOb, nAllowed := 0, 0
	var allowedNotes []string
	perKind := map[string]int{}
	type fnEv struct {
		Name        string `json:"name"`
		Mode        string `json:"mode"`
		Obligations int    `json:"obligations"`
		Discharged  int    `json:"discharged"`
	}
	var fev []fnEv
	seenOb := map[string]bool{}
	for _, fn := range fns {
		// five frame obligations per function: no global write, no write through a global reference,
		// no escape of a global reference, no global reference passed on, no nondeterministic primitive
		fe := fnEv{Name: shortFn(funcKey(fn)), Mode: "frame", Obligations: 5, Discharged: 5}
		nOb += 5
		failedKinds := map[string]bool{}
		for _, f := range eng.sepScanFunction(fn) {
			ok := false
			for _, a := range allow {
				if (a.fn == "*" || a.fn == shortFn(f.Fn)) && a.kind == f.Kind && (a.global == f.Global || (f.Global == "" && a.global == "-")) {
					a.used = true
					ok = true
					note := fmt.Sprintf("allowed exception (%s): %s %s %s at %s: %s", a.reason, shortFn(f.Fn), f.Kind, f.Global, f.Pos, f.What)
					allowedNotes = append(allowedNotes, note)
					nAllowed++
					break
				}
			}
			if ok {
				continue
			}
			perKind[f.Kind]++
			if !failedKinds[f.Kind] {
				failedKinds[f.Kind] = true
				fe.Discharged--
			}
			ob := f.obName()
			if seenOb[ob] {
				continue
			}
			seenOb[ob] = true
			report(ob, fmt.Sprintf("function: %s\nkind: %s\nwhat: %s\nwhere: %s\npackage-level variable: %s\n"+
				"The frame obligation 'instances share no mutable package-level state' does not hold for this function on the current source.\n"+
				"No schedule is executed by this check; a concurrent witness has to be built by hand (two goroutines driving independent instances through this function).\n",
				shortFn(f.Fn), f.Kind, f.What, f.Pos, f.Global))
		}
		fev = append(fev, fe)
	}
	// every global of the library packages: classification for the evidence
	var globals []string
	for _, p := range eng.prog.AllPackages() {
		if !sepInLib(p.Pkg) {
			continue
		}
		for _, m := range p.Members {
			if g, ok := m.(*ssa.Global); ok && !strings.HasPrefix(g.Name(), "init$") {
				cls := "read-only after initialisation (no store outside init found)"
				if len(eng.storedGlobals[g]) > 0 {
					cls = "STORED TO by " + strings.Join(eng.storedGlobals[g], ", ")
				}
				globals = append(globals, globalName(g)+" ("+derefType(g.Type()).String()+"): "+cls)
			}
		}
	}
	sort.Strings(globals)
	var unused []string
	for _, a := range allow {
		if !a.used {
			unused = append(unused, fmt.Sprintf("%s %s %s", a.fn, a.kind, a.global))
		}
	}
	disch := 0
	for _, f := range fev {
		disch += f.Discharged
	}
	assumptions := []string{
		"no schedule is explored and the race detector is not used: race freedom of independent instances follows from the absence of shared mutable package-level state (Go memory model)",
		"internal/xlog (shared logger, mutex, time.Now) is trusted and not scanned; calls into it are treated as without effect",
		"standard-library callees receiving a package-level table are trusted to read it only (listed exceptions)",
		"determinism additionally rests on the deterministic behaviour of hash/crc32, hash/crc64, crypto/sha256",
		"freshness of the objects an instance is built from (constructors allocate their own state, dictionaries, matchers, probability tables) is part of the constructor contracts checked under C01/C03/C08/C11, not of this scan",
	}
	sort.Strings(allowedNotes)
	assumptions = append(assumptions, dedup(allowedNotes)...)
	for _, u := range unused {
		assumptions = append(assumptions, "allow-list entry not needed on the current source: "+u)
	}
	cov := map[string]interface{}{
		"obligations":              nOb,
		"discharged":               disch,
		"checker_cmd":              fmt.Sprintf("/verif/bin/govc check --property %s --tier %s", prop, tier),
		"functions_under_contract": fev,
		"obligation_kinds":         map[string]int{"no-global-write": len(fev), "no-write-through-global-reference": len(fev), "no-global-reference-escape": len(fev), "no-global-reference-passed": len(fev), "no-nondeterministic-primitive": len(fev)},
		"discharged_by_backend":    map[string]interface{}{"generator (data-flow pass over go/ssa, no SMT query needed)": map[string]interface{}{"count": disch, "seconds": time.Since(start).Seconds()}},
		"package_level_variables":  globals,
		"allowed_exceptions":       nAllowed,
		"violations_by_kind":       perKind,
		"trusted_base": []string{
			"go/packages + go/ssa (x/tools v0.29.0), naive-form SSA of /repo's current working tree",
			"govc data-flow pass (/verif/engine/sep.go)",
			"allow list /verif/spec/c14_allow.txt",
		},
		"samples": []interface{}{
			map[string]interface{}{"obligation": "C14/<function>/global-write:<variable>", "meaning": "the function contains no store to a package-level variable outside package initialisation", "result": "checked for every function listed"},
			map[string]interface{}{"obligation": "C14/<function>/global-ref-escapes:<variable>", "meaning": "no pointer, slice, map, func or interface value loaded from a package-level variable is stored into an object, returned or captured", "result": "checked for every function listed"},
		},
		"bounded_standins": []string{},
		"exhaustive":       false,
	}
	ev := map[string]interface{}{
		"property_id": prop, "tier": tier, "seed": 0, "level": "proof", "coverage": cov,
		"assumptions": assumptions, "wall_s": time.Since(start).Seconds(), "violations": violations,
	}
	writeJSON(evPath, ev)
	fmt.Printf("property %s: %d functions, %d obligations, %d discharged, %d violations (%.1fs)\n", prop, len(fev), nOb, disch, violations, time.Since(start).Seconds())
	if violations > 0 {
		return 1
	}
	return 0
}

func dedup(in []string) []string {
	var out []string
	seen := map[string]bool{}
	for _, s := range in {
		if !seen[s] {
			seen[s] = true
			out = append(out, s)
		}
	}
	return out
}
