package main

// govc check: decide one property on the current tree, compare with the
// lock file and the known-findings file, write replay and evidence files.

import (
	"encoding/json"
	"flag"
	"fmt"
	"os"
	"os/exec"
	"path/filepath"
	"regexp"
	"sort"
	"strconv"
	"strings"
	"sync"
	"time"
)

type lockEntry struct {
	Class string // P (must discharge) or U (accepted undischarged: assumption)
	Name  string
}

type knownFinding struct {
	State      string // open | fixed
	Property   string
	Obligation string // prefix match on "<func>/<obligation>"
	What       string
	Raw        string
	Witness    string // test file under <verif>/findings re-run on the real code: must still fail
}

func verifDir() string { return envOr("GOVC_VERIF", "/verif") }
func lockDir() string  { return envOr("GOVC_LOCK", verifDir()) }

func readLock(prop string) (map[string]string, error) {
	m := map[string]string{}
	data, err := os.ReadFile(filepath.Join(lockDir(), "obligations.lock"))
	if err != nil {
		if os.IsNotExist(err) {
			return m, nil
		}
		return nil, err
	}
	for _, l := range strings.Split(string(data), "\n") {
		f := strings.Fields(l)
		if len(f) < 2 || strings.HasPrefix(l, "#") {
			continue
		}
		if strings.HasPrefix(f[1], prop+"/") {
			m[f[1]] = f[0]
		}
	}
	return m, nil
}

func readFindings() []knownFinding {
	var out []knownFinding
	data, err := os.ReadFile(filepath.Join(lockDir(), "known_findings.txt"))
	if err != nil {
		return nil
	}
	re := regexp.MustCompile(`(\w+)=(\S+)`)
	for _, l := range strings.Split(string(data), "\n") {
		l = strings.TrimSpace(l)
		if l == "" || strings.HasPrefix(l, "#") {
			continue
		}
		kf := knownFinding{Raw: l}
		switch {
		case strings.HasPrefix(l, "open:"):
			kf.State = "open"
		case strings.HasPrefix(l, "fixed:"):
			kf.State = "fixed"
		default:
			continue
		}
		for _, m := range re.FindAllStringSubmatch(l, -1) {
			switch m[1] {
			case "property":
				kf.Property = m[2]
			case "obligation":
				kf.Obligation = m[2]
			case "witness":
				kf.Witness = m[2]
			}
		}
		if i := strings.Index(l, "what="); i >= 0 {
			kf.What = l[i+5:]
		}
		out = append(out, kf)
	}
	return out
}

func shortFn(key string) string {
	return strings.TrimPrefix(strings.TrimPrefix(key, modulePath+"/"), modulePath+".")
}

// obligation names without the volatile return ordinal, for matching findings
func obBase(name string) string {
	if i := strings.Index(name, "@ret"); i >= 0 {
		return name[:i]
	}
	return name
}

type obReport struct {
	Full     string
	Fn       string
	Ob       *Obligation
	Class    string // P, U, F(known finding), V(violation), O(optional)
	Finding  *knownFinding
	Replayed string
}

func cmdCheck(args []string) int {
	fs := flag.NewFlagSet("check", flag.ExitOnError)
	repo := fs.String("repo", envOr("GOVC_REPO", "/repo"), "repository")
	spec := fs.String("spec", envOr("GOVC_SPEC", filepath.Join(verifDir(), "spec")), "spec dir")
	prop := fs.String("property", "", "property id")
	tier := fs.String("tier", envOr("VERIF_TIER", "quick"), "quick|thorough")
	relock := fs.Bool("relock", false, "rewrite this property's section of the lock file from the current run (development only)")
	fs.Parse(args)
	if *prop == "" {
		fmt.Fprintln(os.Stderr, "check: --property required")
		return 2
	}
	if *prop == "C14" {
		initScratch()
		defer cleanupScratch()
		return cmdCheckC14(*repo, *spec, *tier)
	}
	start := time.Now()
	seed, _ := strconv.Atoi(envOr("VERIF_SEED", "0"))
	initScratch()
	defer cleanupScratch()
	evPath := filepath.Join(verifDir(), "evidence", *prop+".json")
	os.MkdirAll(filepath.Dir(evPath), 0755)
	replayDir := filepath.Join(verifDir(), "replay", *prop)
	os.RemoveAll(replayDir)
	os.MkdirAll(replayDir, 0755)

	violations := 0
	violate := func(ob string, replay string, noInput bool) {
		violations++
		s := fmt.Sprintf("VIOLATION property=%s replay=%s obligation=%s", *prop, replay, ob)
		if noInput {
			s += " no-failing-input-found"
		}
		fmt.Println(s)
	}
	writeReplayNote := func(name string, body string) string {
		p := filepath.Join(replayDir, sanitize(name)+".txt")
		os.WriteFile(p, []byte(body), 0644)
		return p
	}

	eng, err := NewEngine(*repo, *spec)
	if err != nil {
		p := writeReplayNote("load", "obligation: "+*prop+"/load\nThe repository (with the contract files) could not be loaded:\n"+err.Error()+"\n")
		violate(*prop+"/load", p, true)
		writeEvidence(evPath, *prop, *tier, seed, nil, nil, eng, time.Since(start).Seconds(), violations, []string{"load failed: " + err.Error()})
		return 1
	}
	timeout := 20
	if *tier == "thorough" {
		timeout = 30
	}
	var keys []string
	for k, c := range eng.specs.Contracts {
		if c.Assumed || c.NoBody {
			continue
		}
		for _, p := range c.Props {
			if p == *prop {
				keys = append(keys, k)
			}
		}
	}
	sort.Strings(keys)
	if len(keys) == 0 {
		p := writeReplayNote("vacuity", "no function under contract is attributed to "+*prop+"\n")
		violate(*prop+"/vacuity", p, true)
		return 1
	}
	var results []*FnResult
	for _, k := range keys {
		eng.curProp = *prop
		results = append(results, eng.VerifyFunction(k))
	}
	eng.crossCheck = *tier == "thorough"
	eng.Discharge(results, timeout, 12)

	lock, _ := readLock(*prop)
	findings := readFindings()
	var reports []*obReport
	seenFull := map[string]bool{}
	uBudget := map[string]int{} // fn/kind -> accepted undischarged count
	for name, class := range lock {
		if class == "U" {
			parts := strings.SplitN(strings.TrimPrefix(name, *prop+"/"), "/", 2)
			if len(parts) == 2 {
				uBudget[parts[0]+"|"+obKindOf(parts[1])]++
			}
		}
	}
	for _, r := range results {
		fn := shortFn(r.Key)
		if len(r.Errs) > 0 {
			body := fmt.Sprintf("obligation: %s/%s/wellformed\nThe function or its contract could not be processed on the current tree:\n%s\n", *prop, fn, strings.Join(r.Errs, "\n"))
			p := writeReplayNote(fn+"_wellformed", body)
			violate(*prop+"/"+fn+"/wellformed", p, true)
		}
		for _, ob := range r.Obs {
			full := *prop + "/" + fn + "/" + ob.Name
			for seenFull[full] {
				full += "'"
			}
			seenFull[full] = true
			rep := &obReport{Full: full, Fn: fn, Ob: ob}
			reports = append(reports, rep)
			switch {
			case ob.Status == "discharged":
				rep.Class = "P"
			case ob.Optional:
				rep.Class = "O"
			case ob.Cover && ob.Status == "unknown":
				// satisfiability of a quantified precondition could not be decided: the vacuity
				// guard is inconclusive (reported in the evidence), only a definite unsat is an alarm
				rep.Class = "O"
			default:
				// known finding?
				for i := range findings {
					kf := &findings[i]
					if kf.State == "open" && kf.Property == *prop && strings.HasPrefix(fn+"/"+ob.Name, kf.Obligation) {
						rep.Class = "F"
						rep.Finding = kf
					}
				}
				if rep.Class == "" {
					if lock[full] == "U" {
						rep.Class = "U"
						uBudget[fn+"|"+ob.Kind]--
					}
				}
			}
		}
	}
	// undischarged, not listed by name: within the per-function budget of accepted ones?
	for _, rep := range reports {
		if rep.Class != "" {
			continue
		}
		k := rep.Fn + "|" + rep.Ob.Kind
		if lock[rep.Full] == "" && uBudget[k] > 0 && !*relock {
			uBudget[k]--
			rep.Class = "U"
			continue
		}
		rep.Class = "V"
	}
	// a recorded finding suppresses its obligation only while its API-level witness still fails on the real code
	witnessOK := map[string]bool{}
	witnessOut := map[string]string{}
	for _, rep := range reports {
		if rep.Class != "F" || rep.Finding.Witness == "" {
			continue
		}
		kf := rep.Finding
		if _, done := witnessOK[kf.Raw]; !done {
			witnessOK[kf.Raw], witnessOut[kf.Raw] = runWitness(*repo, kf.Witness)
		}
		if !witnessOK[kf.Raw] {
			rep.Class = "V"
			rep.Replayed = "the recorded witness " + kf.Witness + " of the known finding no longer fails on the real code, but the obligation still fails:\n" + witnessOut[kf.Raw]
		}
	}
	// report
	printedFinding := map[string]bool{}
	for _, rep := range reports {
		switch rep.Class {
		case "F":
			if !printedFinding[rep.Finding.Raw] {
				printedFinding[rep.Finding.Raw] = true
				fmt.Printf("KNOWN-FINDING: property=%s %s\n", *prop, rep.Finding.What)
			}
		case "V":
			if *relock {
				continue
			}
			ob := rep.Ob
			body := fmt.Sprintf("obligation: %s\nfunction: %s\nkind: %s\nclause: %s\nstatus: %s\n", rep.Full, rep.Fn, ob.Kind, ob.Goal, ob.Status)
			if rep.Replayed != "" {
				body += rep.Replayed + "\n"
			}
			noInput := true
			if ob.Result != nil {
				body += fmt.Sprintf("solver: %s (%.2fs)\n", ob.Result.Solver, ob.Result.Seconds)
				if ob.Status == "failed" && !ob.Cover {
					body += "counterexample (solver model, entry state):\n" + modelText(ob.Result.Model) + "\n"
					rp := tryReplay(eng, rep, replayDir)
					if rp.Confirmed {
						noInput = false
						body += "\nREPLAY on the real code: CONFIRMED\n" + rp.Text
					} else {
						body += "\nREPLAY on the real code: " + rp.Text + "\n"
					}
				} else {
					body += "solver output:\n" + ob.Result.Output + "\n"
				}
			}
			p := writeReplayNote(rep.Fn+"_"+ob.Name, body)
			violate(rep.Full, p, noInput)
		}
	}
	// locked obligations that vanished (vacuity guard)
	gen := map[string]bool{}
	for _, rep := range reports {
		gen[obBase(rep.Full)] = true
	}
	if !*relock {
		missing := map[string]bool{}
		for name, class := range lock {
			if class != "P" {
				continue
			}
			b := obBase(name)
			if !gen[b] && isContractLevel(b) {
				missing[b] = true
			}
		}
		for _, b := range sortedKeys(missing) {
			p := writeReplayNote("missing_"+b, "obligation: "+b+"\nThis obligation is in obligations.lock but was not generated from the current source (function, loop or contract clause no longer found).\n")
			violate(b, p, true)
		}
	}
	if *relock {
		rewriteLock(*prop, reports)
	}
	var notes []string
	// thorough tier: the seeded property-breaking changes kept under /verif/seeded must still be detected
	// (regression guard of the machinery; a miss is reported in the evidence, never as a violation of /repo)
	if *tier == "thorough" && os.Getenv("GOVC_NO_SELFTEST") == "" && *repo == "/repo" {
		notes = append(notes, runSeededSelftest(*prop)...)
	}
	// bounded stand-ins (labelled bounded, never counted as proved)
	standinInfo = nil
	for _, sname := range propertyStandins[*prop] {
		ok, summary, out := runStandin(*repo, sname, *tier)
		standinInfo = append(standinInfo, summary)
		if !ok {
			body := "obligation: " + *prop + "/standin:" + sname + "\nThe bounded stand-in failed on the real code; the failing input is in the output below.\n" + out
			p := writeReplayNote("standin_"+sname, body)
			violate(*prop+"/standin:"+sname, p, false)
		}
	}
	writeEvidence(evPath, *prop, *tier, seed, results, reports, eng, time.Since(start).Seconds(), violations, notes)
	nP, nAll := 0, 0
	for _, rep := range reports {
		if rep.Class == "O" {
			continue
		}
		nAll++
		if rep.Class == "P" {
			nP++
		}
	}
	if os.Getenv("GOVC_SLOW") != "" {
		for _, rep := range reports {
			if rep.Ob.Result != nil && rep.Ob.Result.Seconds > 2.0 {
				fmt.Fprintf(os.Stderr, "SLOW %.1fs %s %s [%s]\n", rep.Ob.Result.Seconds, rep.Full, rep.Ob.Status, rep.Ob.Result.Solver)
			}
		}
	}
	fmt.Printf("property %s: %d functions, %d obligations, %d discharged, %d violations (%.1fs)\n", *prop, len(results), nAll, nP, violations, time.Since(start).Seconds())
	if violations > 0 {
		return 1
	}
	return 0
}

// runWitness runs a finding's witness test (first line "// place at: <path>") on the real code through
// go test -overlay. It reports true when the test FAILS, i.e. the recorded defect is still present.
func runWitness(repo, rel string) (bool, string) {
	src := filepath.Join(lockDir(), "findings", rel)
	data, err := os.ReadFile(src)
	if err != nil {
		return false, "witness file missing: " + err.Error()
	}
	first := strings.SplitN(string(data), "\n", 2)[0]
	place := strings.TrimSpace(strings.TrimPrefix(first, "// place at:"))
	if place == first || place == "" {
		return false, "witness file has no '// place at:' line"
	}
	m := regexp.MustCompile(`func (Test\w+)\(`).FindStringSubmatch(string(data))
	if m == nil {
		return false, "witness file has no test function"
	}
	dst := filepath.Join(repo, place)
	ov, _ := json.Marshal(map[string]map[string]string{"Replace": {dst: src}})
	ovFile := filepath.Join(scratchDir, sanitize(rel)+".overlay.json")
	os.WriteFile(ovFile, ov, 0644)
	cmd := exec.Command("bash", "-c", fmt.Sprintf("ulimit -v 8000000; cd %q && go test -mod=mod -overlay %q -vet=off -count=1 -timeout 120s -run '^%s$' .", filepath.Dir(dst), ovFile, m[1]))
	cmd.Env = append(os.Environ(), "GOFLAGS=-mod=mod", "GOPROXY=off", "GOSUMDB=off", "GOTOOLCHAIN=local")
	out, _ := cmd.CombinedOutput()
	o := string(out)
	return strings.Contains(o, "--- FAIL: "+m[1]), firstLines(o, 15)
}

func obKindOf(name string) string {
	// name like "bounds#3", "x>bounds#3", "loop1/inv-step#2", "post#1@ret2", "call@f#1/pre#1"
	if i := strings.LastIndex(name, "/"); i >= 0 {
		name = name[i+1:]
	}
	if i := strings.LastIndex(name, ">"); i >= 0 {
		name = name[i+1:]
	}
	if i := strings.Index(name, "#"); i >= 0 {
		name = name[:i]
	}
	if i := strings.Index(name, ":"); i >= 0 {
		name = name[:i]
	}
	return name
}

func isContractLevel(b string) bool {
	return strings.Contains(b, "/post#") || strings.Contains(b, "/inv-") || strings.Contains(b, "/cover/") || strings.Contains(b, "decreases#")
}

func rewriteLock(prop string, reports []*obReport) {
	path := filepath.Join(lockDir(), "obligations.lock")
	var keep []string
	if data, err := os.ReadFile(path); err == nil {
		for _, l := range strings.Split(string(data), "\n") {
			f := strings.Fields(l)
			if len(f) >= 2 && strings.HasPrefix(f[1], prop+"/") {
				continue
			}
			if strings.TrimSpace(l) != "" {
				keep = append(keep, l)
			}
		}
	}
	for _, rep := range reports {
		switch rep.Class {
		case "P":
			keep = append(keep, "P "+rep.Full)
		case "U", "V":
			keep = append(keep, "U "+rep.Full)
		}
	}
	sort.Strings(keep)
	os.WriteFile(path, []byte(strings.Join(keep, "\n")+"\n"), 0644)
}

func modelText(m map[string]string) string {
	var ks []string
	for k := range m {
		ks = append(ks, k)
	}
	sort.Strings(ks)
	var sb strings.Builder
	n := 0
	for _, k := range ks {
		v := m[k]
		if len(v) > 200 {
			v = v[:200] + "..."
		}
		if strings.HasPrefix(k, "p.") || strings.HasPrefix(k, "H.") || strings.HasPrefix(k, "E.") || strings.HasPrefix(k, "C.") {
			fmt.Fprintf(&sb, "  %s = %s\n", k, v)
			n++
		}
		if n > 60 {
			break
		}
	}
	return sb.String()
}

// ---------- evidence ----------

func writeEvidence(path, prop, tier string, seed int, results []*FnResult, reports []*obReport, eng *Engine, wall float64, violations int, notes []string) {
	type fnEv struct {
		Name        string `json:"name"`
		Mode        string `json:"mode"`
		Obligations int    `json:"obligations"`
		Discharged  int    `json:"discharged"`
	}
	fns := []fnEv{}
	assumedContracts := map[string]bool{}
	inlined := map[string]bool{}
	abstractions := map[string]int{}
	for _, r := range results {
		fe := fnEv{Name: shortFn(r.Key), Mode: r.Mode}
		for _, ob := range r.Obs {
			if ob.Optional {
				continue
			}
			fe.Obligations++
			if ob.Status == "discharged" {
				fe.Discharged++
			}
		}
		fns = append(fns, fe)
		for _, a := range r.Assumed {
			assumedContracts[a] = true
		}
		for _, a := range r.Inlined {
			inlined[shortFn(a)] = true
		}
		for k, v := range r.Abstr {
			abstractions[k] += v
		}
	}
	nOb, nDis, nTrivial, nOptional, nOptDis := 0, 0, 0, 0, 0
	uclass, known, samples := []interface{}{}, []interface{}{}, []interface{}{}
	kinds := map[string]int{}
	backends := map[string]map[string]interface{}{}
	for _, rep := range reports {
		ob := rep.Ob
		if ob.Cover && rep.Class == "O" {
			uclass = append(uclass, "vacuity guard inconclusive (solver returned unknown on a satisfiability query with quantifiers): "+rep.Full)
			continue
		}
		if ob.Optional {
			nOptional++
			if ob.Status == "discharged" {
				nOptDis++
			} else {
				uclass = append(uclass, "machine arithmetic treated as mathematical (overflow obligation not discharged): "+rep.Full)
			}
			continue
		}
		switch rep.Class {
		case "U":
			uclass = append(uclass, "undischarged, not claimed (assumption): "+rep.Full+"  "+ob.Goal)
			continue
		case "F":
			known = append(known, rep.Full+": "+rep.Finding.What)
			continue
		}
		nOb++
		kinds[ob.Kind]++
		if rep.Class == "P" {
			nDis++
			be := "simplifier"
			secs := 0.0
			if ob.Trivial {
				nTrivial++
			} else if ob.Result != nil {
				be = ob.Result.Solver
				secs = ob.Result.Seconds
			}
			b := backends[be]
			if b == nil {
				b = map[string]interface{}{"count": 0, "seconds": 0.0}
				backends[be] = b
			}
			b["count"] = b["count"].(int) + 1
			b["seconds"] = b["seconds"].(float64) + secs
		}
		if len(samples) < 3 && !ob.Trivial && ob.Result != nil && rep.Class == "P" && (ob.Kind == "post" || ob.Kind == "inv-step") {
			vc := ""
			if r := resultOf(results, ob); r != nil {
				vc = r.tb.Script(append(r.ctx.relevantAxioms(ob.Asserts), ob.Asserts...), false, "ALL")
				if len(vc) > 3000 {
					vc = vc[:3000] + "\n... (truncated)"
				}
			}
			samples = append(samples, map[string]interface{}{"obligation": rep.Full, "clause": ob.Goal, "result": ob.Result.Status, "solver": ob.Result.Solver, "seconds": ob.Result.Seconds, "smt2": vc})
		}
	}
	if len(samples) == 0 {
		for _, rep := range reports {
			if rep.Class == "P" {
				samples = append(samples, map[string]interface{}{"obligation": rep.Full, "clause": rep.Ob.Goal, "result": "discharged"})
				if len(samples) >= 3 {
					break
				}
			}
		}
	}
	if len(samples) == 0 {
		samples = append(samples, map[string]interface{}{"note": "no obligation generated"})
	}
	trusted := []string{
		"go/packages + go/ssa (x/tools v0.29.0), naive-form SSA of /repo's current working tree; GOARCH=amd64 (int = 64 bit)",
		"govc VC generator (/verif/engine): symbolic execution, memory model, arithmetic encodings",
		"SMT solvers z3 5.1.0 (z3-new), cvc5 1.0, z3 4.8.12",
		"specification layer /verif/spec/*.spec (transcribed from the format documents)",
	}
	for _, a := range sortedKeys(assumedContracts) {
		trusted = append(trusted, "assumed contract: "+a)
	}
	assumptions := []string{}
	for _, m := range specMarkers(eng) {
		assumptions = append(assumptions, m)
	}
	for _, k := range sortedKeys(abstractions) {
		assumptions = append(assumptions, fmt.Sprintf("abstraction hit %dx: %s", abstractions[k], k))
	}
	for _, u := range uclass {
		assumptions = append(assumptions, u.(string))
	}
	assumptions = append(assumptions, propertyAssumptions[prop]...)
	assumptions = append(assumptions, notes...)
	sort.Strings(assumptions[:0])
	solverSecs := map[string]interface{}{}
	solverStatsMu.Lock()
	for k, v := range solverStats {
		solverSecs[k] = map[string]interface{}{"queries_decided": v.N, "seconds": v.S}
	}
	solverStatsMu.Unlock()
	cross := map[string]int{}
	disagreements := []string{}
	for _, rep := range reports {
		if rep.Ob.Second != "" {
			st := rep.Ob.Second[strings.Index(rep.Ob.Second, ":")+1:]
			cross[st]++
			if st == "sat" {
				disagreements = append(disagreements, rep.Full+" ("+rep.Ob.Second+")")
			}
		}
	}
	cov := map[string]interface{}{
		"second_solver_on_discharged":    map[string]interface{}{"answers": cross, "disagreements": disagreements},
		"obligations":                    nOb,
		"discharged":                     nDis,
		"checker_cmd":                    fmt.Sprintf("/verif/bin/govc check --property %s --tier %s", prop, tier),
		"trusted_base":                   trusted,
		"samples":                        samples,
		"functions_under_contract":       fns,
		"functions_inlined_into_callers": sortedKeys(inlined),
		"obligation_kinds":               kinds,
		"discharged_by_backend":          backends,
		"discharged_by_simplifier":       nTrivial,
		"solver_stats":                   solverSecs,
		"optional_overflow_obligations":  map[string]int{"generated": nOptional, "discharged": nOptDis},
		"known_findings":                 known,
		"bounded_standins":               standinsOrEmpty(),
		"exhaustive":                     false,
	}
	if eng != nil {
		cov["load_and_ssa_seconds"] = eng.loadSecs
	}
	ev := map[string]interface{}{
		"property_id": prop,
		"tier":        tier,
		"seed":        seed,
		"level":       "proof",
		"coverage":    cov,
		"assumptions": assumptions,
		"wall_s":      wall,
		"violations":  violations,
	}
	writeJSON(path, ev)
}

func writeJSON(path string, v interface{}) {
	data, _ := json.MarshalIndent(v, "", " ")
	os.WriteFile(path, data, 0644)
}

func resultOf(results []*FnResult, ob *Obligation) *FnResult {
	for _, r := range results {
		if r.ctx == ob.fn {
			return r
		}
	}
	return nil
}

func specMarkers(eng *Engine) []string {
	if eng == nil {
		return nil
	}
	return nil
}

// propertyAssumptions: the named assumptions of DESIGN.md section 4 / 6 per property.
var propertyAssumptions = map[string][]string{}

// ---------- bounded stand-ins ----------

var standinInfo []string

func standinsOrEmpty() []string {
	if standinInfo == nil {
		return []string{}
	}
	return standinInfo
}

// which properties rest on assumption A1 and therefore also run the bounded stand-in B1
var propertyStandins = map[string][]string{
	"C01": {"B1"}, "C02": {"B1"}, "C03": {"B1"}, "C06": {"B1"}, "C07": {"B1"}, "C08": {"B1"},
}

var standinFiles = map[string]string{"B1": "b1_codec_test.go"}

// runStandin executes a bounded stand-in test on the real code through go test -overlay.
func runStandin(repo, name, tier string) (bool, string, string) {
	src := filepath.Join(lockDir(), "standins", standinFiles[name])
	data, err := os.ReadFile(src)
	if err != nil {
		return false, name + ": stand-in file missing", err.Error()
	}
	first := strings.SplitN(string(data), "\n", 2)[0]
	place := strings.TrimSpace(strings.TrimPrefix(first, "// place at:"))
	m := regexp.MustCompile(`func (Test\w+)\(`).FindStringSubmatch(string(data))
	if place == "" || m == nil {
		return false, name + ": malformed stand-in file", ""
	}
	dst := filepath.Join(repo, place)
	ov, _ := json.Marshal(map[string]map[string]string{"Replace": {dst: src}})
	ovFile := filepath.Join(scratchDir, sanitize(name)+".overlay.json")
	os.WriteFile(ovFile, ov, 0644)
	env := "B1_MAXLEN=5 B1_MAXPARSES=200"
	if tier == "thorough" {
		env = "B1_MAXLEN=7 B1_MAXPARSES=500"
	}
	cmd := exec.Command("bash", "-c", fmt.Sprintf("ulimit -v 8000000; cd %q && %s go test -mod=mod -overlay %q -vet=off -v -count=1 -timeout 900s -run '^%s$' .", filepath.Dir(dst), env, ovFile, m[1]))
	cmd.Env = append(os.Environ(), "GOFLAGS=-mod=mod", "GOPROXY=off", "GOSUMDB=off", "GOTOOLCHAIN=local")
	out, _ := cmd.CombinedOutput()
	o := string(out)
	summary := name + " (bounded, not a proof): no summary line"
	for _, l := range strings.Split(o, "\n") {
		if strings.HasPrefix(l, "STANDIN-") {
			summary = name + " (bounded stand-in for assumption A1, not counted as proved): " + strings.TrimSpace(l)
		}
	}
	ok := strings.Contains(o, "--- PASS: "+m[1]) && !strings.Contains(o, "--- FAIL")
	if !ok {
		summary = name + " FAILED: " + firstLines(o, 6)
	}
	return ok, summary, firstLines(o, 40)
}

// runSeededSelftest applies each seeded change of the property to a scratch copy of /repo (outside /repo
// and /verif, removed afterwards) and reports whether this property's check raises a violation on it.
func runSeededSelftest(prop string) []string {
	dirs, _ := filepath.Glob(filepath.Join(lockDir(), "seeded", prop+"-*"))
	sort.Strings(dirs)
	// every seed was run when it was confirmed (seeded/<id>/meta.json); a check run repeats the
	// self-test for a bounded number of them: those that were missed at first come first
	// (GOVC_SELFTEST_MAX, default 4; tools/selftest_all.sh runs all)
	max := 4
	if v, err := strconv.Atoi(os.Getenv("GOVC_SELFTEST_MAX")); err == nil && v >= 0 {
		max = v
	}
	if len(dirs) > max {
		var first, rest []string
		for _, d := range dirs {
			b, _ := os.ReadFile(filepath.Join(d, "meta.json"))
			if strings.Contains(string(b), "caught_after_strengthening") {
				first = append(first, d)
			} else {
				rest = append(rest, d)
			}
		}
		// newest first within each group
		sort.Sort(sort.Reverse(sort.StringSlice(first)))
		sort.Sort(sort.Reverse(sort.StringSlice(rest)))
		dirs = append(first, rest...)
		if len(dirs) > max {
			dirs = dirs[:max]
		}
		sort.Strings(dirs)
	}
	out := make([]string, len(dirs))
	sem := make(chan struct{}, 3) // three scratch copies at a time
	var wg sync.WaitGroup
	for i, d := range dirs {
		patch := filepath.Join(d, "patch.diff")
		if _, err := os.Stat(patch); err != nil {
			continue
		}
		wg.Add(1)
		go func(i int, d, patch string) {
			defer wg.Done()
			sem <- struct{}{}
			defer func() { <-sem }()
			cmd := exec.Command("bash", filepath.Join(lockDir(), "tools", "mutcheck.sh"), patch, prop)
			cmd.Env = append(os.Environ(), "GOVC_NO_SELFTEST=1", "VERIF_TIER=quick")
			o, _ := cmd.CombinedOutput()
			res := "MISSED"
			if strings.Contains(string(o), "VIOLATION property="+prop) {
				res = "detected"
			} else if strings.Contains(string(o), "PATCH-FAILED") {
				res = "patch does not apply to the current tree"
			}
			first := ""
			for _, l := range strings.Split(string(o), "\n") {
				if strings.HasPrefix(l, "VIOLATION") {
					first = " (" + strings.TrimSpace(strings.SplitN(l, "obligation=", 2)[len(strings.SplitN(l, "obligation=", 2))-1]) + ")"
					break
				}
			}
			out[i] = "self-test on seeded change " + filepath.Base(d) + ": " + res + first
		}(i, d, patch)
	}
	wg.Wait()
	var res []string
	for _, l := range out {
		if l != "" {
			res = append(res, l)
		}
	}
	return res
}
