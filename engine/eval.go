package main

// Evaluation of contract expressions to symbolic values.

import (
	"fmt"
	"go/constant"
	"go/token"
	"go/types"
	"math/big"
	"os"
	"sort"
	"strings"

	"golang.org/x/tools/go/ssa"
)

type TV struct {
	V       Value
	T       types.Type
	Untyped *big.Int // untyped integer constant
}

type EvalCtx struct {
	x           *FnCtx
	fn          *ssa.Function
	pkg         *types.Package
	cur, old    *State
	params      map[string]TV // entry values
	results     []TV
	resNames    []string
	frame       *Frame // when set, identifiers resolve to current cell values first (loop invariants)
	binds       map[string]TV
	oldA        *Term // allocation counter at the reference point for fresh()
	depth       int
	err         error
	paramsFirst bool
	facts       *[]*Term // well-formedness facts about values read during evaluation
}

func (c *EvalCtx) fail(format string, a ...interface{}) TV {
	if c.err == nil {
		c.err = fmt.Errorf(format, a...)
		if os.Getenv("GOVC_DEBUG") != "" {
			fmt.Fprintln(os.Stderr, "eval error:", c.err)
		}
		c.x.lastEvalErr = c.err.Error()
	}
	return TV{V: c.x.tb.Fresh("evalerr", BoolSort), T: types.Typ[types.Bool]}
}

func (c *EvalCtx) with(binds map[string]TV) *EvalCtx {
	n := *c
	n.binds = map[string]TV{}
	for k, v := range c.binds {
		n.binds[k] = v
	}
	for k, v := range binds {
		n.binds[k] = v
	}
	return &n
}

var basicByName = map[string]types.Type{
	"int": types.Typ[types.Int], "int8": types.Typ[types.Int8], "int16": types.Typ[types.Int16],
	"int32": types.Typ[types.Int32], "int64": types.Typ[types.Int64],
	"uint": types.Typ[types.Uint], "uint8": types.Typ[types.Uint8], "byte": types.Typ[types.Uint8],
	"uint16": types.Typ[types.Uint16], "uint32": types.Typ[types.Uint32], "uint64": types.Typ[types.Uint64],
	"bool": types.Typ[types.Bool], "string": types.Typ[types.String],
	"error": types.Universe.Lookup("error").Type(),
}

func (c *EvalCtx) typeByName(n string) types.Type {
	if t, ok := basicByName[n]; ok {
		return t
	}
	star := strings.HasPrefix(n, "*")
	n = strings.TrimPrefix(n, "*")
	if i := strings.Index(n, "."); i > 0 {
		if p := c.pkgByAlias(n[:i]); p != nil {
			if o := p.Scope().Lookup(n[i+1:]); o != nil {
				if tn, ok := o.(*types.TypeName); ok {
					if star {
						return types.NewPointer(tn.Type())
					}
					return tn.Type()
				}
			}
		}
		return nil
	}
	if c.pkg != nil {
		if o := c.pkg.Scope().Lookup(n); o != nil {
			if tn, ok := o.(*types.TypeName); ok {
				if star {
					return types.NewPointer(tn.Type())
				}
				return tn.Type()
			}
		}
	}
	if n == "ref" {
		return types.NewPointer(types.NewStruct(nil, nil))
	}
	if n == "intmap" {
		// ghost map from (string / reference) identities to integers
		return types.NewArray(types.Typ[types.Int], 1<<40)
	}
	return nil
}

func (c *EvalCtx) boolTerm(e *Expr) *Term {
	v := c.eval(e)
	t, ok := v.V.(*Term)
	if !ok || t.Sort != BoolSort {
		c.fail("expression %s is not boolean", e)
		return c.x.tb.Fresh("evalerr", BoolSort)
	}
	return t
}

// materialise turns an untyped constant into a term of type t.
func (c *EvalCtx) mat(v TV, t types.Type) *Term {
	x := c.x
	if v.Untyped != nil {
		if t == nil {
			t = types.Typ[types.Int]
		}
		if _, _, ok := intInfo(t); ok {
			return x.intConst(v.Untyped, t)
		}
		return x.tb.IntB(v.Untyped)
	}
	if t, ok := v.V.(*Term); ok {
		return t
	}
	if fv, ok := v.V.(FuncV); ok {
		return x.funcRef(fv)
	}
	c.fail("value is not a scalar (%T)", v.V)
	return x.tb.Fresh("evalerr", x.intSort())
}

// unify brings two integer operands to a common representation.
func (c *EvalCtx) unify(a, b TV) (*Term, *Term, types.Type) {
	x := c.x
	if a.Untyped != nil && b.Untyped != nil {
		t := types.Typ[types.Int]
		return c.mat(a, t), c.mat(b, t), t
	}
	if a.Untyped != nil {
		return c.mat(a, b.T), c.mat(b, b.T), b.T
	}
	if b.Untyped != nil {
		return c.mat(a, a.T), c.mat(b, a.T), a.T
	}
	ta, tb2 := c.mat(a, a.T), c.mat(b, b.T)
	if x.bv && ta.Sort != tb2.Sort && ta.Sort.Kind == SBV && tb2.Sort.Kind == SBV {
		_, sa, _ := intInfo(a.T)
		_, sb, _ := intInfo(b.T)
		w := maxInt(ta.Sort.Width, tb2.Sort.Width)
		rt := a.T
		if tb2.Sort.Width > ta.Sort.Width {
			rt = b.T
		}
		return x.tb.BVResize(ta, w, sa), x.tb.BVResize(tb2, w, sb), rt
	}
	if !x.bv {
		// mixed signedness/width in mode int: mathematical comparison; result type: wider signed
		wa, _, oka := intInfo(a.T)
		wb, _, okb := intInfo(b.T)
		if oka && okb && wb > wa {
			return ta, tb2, b.T
		}
	}
	return ta, tb2, a.T
}

var tokByOp = map[string]token.Token{
	"+": token.ADD, "-": token.SUB, "*": token.MUL, "/": token.QUO, "%": token.REM,
	"&": token.AND, "|": token.OR, "^": token.XOR, "<<": token.SHL, ">>": token.SHR, "&^": token.AND_NOT,
	"==": token.EQL, "!=": token.NEQ, "<": token.LSS, "<=": token.LEQ, ">": token.GTR, ">=": token.GEQ,
}

func (c *EvalCtx) eval(e *Expr) TV {
	x := c.x
	tb := x.tb
	boolT := types.Typ[types.Bool]
	switch e.Kind {
	case "num":
		return TV{Untyped: e.Val}
	case "str":
		return TV{V: x.stringConst(e.Name), T: types.Typ[types.String]}
	case "ident":
		return c.ident(e.Name)
	case "unary":
		switch e.Name {
		case "!":
			return TV{V: tb.Not(c.boolTerm(e.Args[0])), T: boolT}
		case "-":
			v := c.eval(e.Args[0])
			if v.Untyped != nil {
				return TV{Untyped: new(big.Int).Neg(v.Untyped)}
			}
			// contract arithmetic on signed values is mathematical
			if x.bv {
				return TV{V: tb.BVNeg(c.mat(v, v.T)), T: v.T}
			}
			return TV{V: tb.Neg(c.mat(v, v.T)), T: v.T}
		case "^":
			v := c.eval(e.Args[0])
			if v.Untyped != nil {
				return TV{Untyped: new(big.Int).Not(v.Untyped)}
			}
			return TV{V: x.unop(token.XOR, c.mat(v, v.T), v.T, "", nil), T: v.T}
		case "*":
			v := c.eval(e.Args[0])
			pt, ok := v.T.Underlying().(*types.Pointer)
			if !ok {
				return c.fail("deref of non-pointer %s", e.Args[0])
			}
			return TV{V: x.load(nil, c.cur, v.V, v.T), T: pt.Elem()}
		}
	case "binary":
		switch e.Name {
		case "&&":
			return TV{V: tb.And(c.boolTerm(e.Args[0]), c.boolTerm(e.Args[1])), T: boolT}
		case "||":
			return TV{V: tb.Or(c.boolTerm(e.Args[0]), c.boolTerm(e.Args[1])), T: boolT}
		case "==>":
			return TV{V: tb.Implies(c.boolTerm(e.Args[0]), c.boolTerm(e.Args[1])), T: boolT}
		case "<==>":
			return TV{V: tb.Eq(c.boolTerm(e.Args[0]), c.boolTerm(e.Args[1])), T: boolT}
		}
		a, b := c.eval(e.Args[0]), c.eval(e.Args[1])
		op := tokByOp[e.Name]
		if a.Untyped != nil && b.Untyped != nil {
			return c.constFold(op, a.Untyped, b.Untyped)
		}
		// equality on non-integers
		if op == token.EQL || op == token.NEQ {
			if r, ok := c.equalValues(a, b); ok {
				if op == token.NEQ {
					r = tb.Not(r)
				}
				return TV{V: r, T: boolT}
			}
		}
		if op == token.SHL || op == token.SHR {
			ta := c.mat(a, a.T)
			tbb := c.mat(b, firstType(b.T, types.Typ[types.Uint]))
			at := firstType(a.T, types.Typ[types.Int])
			return TV{V: x.binop(op, ta, tbb, at, firstType(b.T, types.Typ[types.Uint]), "", nil), T: at}
		}
		ta, tbt, t := c.unify(a, b)
		if t == nil {
			t = types.Typ[types.Int]
		}
		if isBool(t) || !isIntType(t) {
			if op == token.EQL {
				return TV{V: tb.Eq(ta, tbt), T: boolT}
			}
			if op == token.NEQ {
				return TV{V: tb.Ne(ta, tbt), T: boolT}
			}
			return c.fail("operator %s on non-integer operands in %s", e.Name, e)
		}
		// mode int: comparisons and + - * on any integer types are mathematical in contracts
		if !x.bv {
			switch op {
			case token.ADD:
				return TV{V: tb.Add(ta, tbt), T: specIntType(t)}
			case token.SUB:
				return TV{V: tb.Sub(ta, tbt), T: specIntType(t)}
			case token.MUL:
				return TV{V: tb.Mul(ta, tbt), T: specIntType(t)}
			}
		}
		r := x.binop(op, ta, tbt, t, t, "", nil)
		if x.bv && (op == token.ADD || op == token.SUB) {
			// contract arithmetic on signed 64-bit values is meant mathematically: assume it does not wrap
			if w, sg, ok := intInfo(t); ok && sg && w == 64 {
				if rt2, ok := r.(*Term); ok && !rt2.IsConst() {
					zero := tb.BVC(bigZero, 64)
					an, bn, rn := tb.BVCmp("bvslt", ta, zero), tb.BVCmp("bvslt", tbt, zero), tb.BVCmp("bvslt", rt2, zero)
					if op == token.ADD {
						c.fact(tb.Not(tb.Or(tb.And(tb.Not(an), tb.Not(bn), rn), tb.And(an, bn, tb.Not(rn)))))
					} else {
						c.fact(tb.Not(tb.Or(tb.And(tb.Not(an), bn, rn), tb.And(an, tb.Not(bn), tb.Not(rn)))))
					}
				}
			}
		}
		rt := t
		switch op {
		case token.EQL, token.NEQ, token.LSS, token.LEQ, token.GTR, token.GEQ:
			rt = boolT
		}
		return TV{V: r, T: rt}
	case "field":
		return c.field(e)
	case "index":
		return c.index(e)
	case "slice":
		return c.sliceExpr(e)
	case "call":
		return c.callExpr(e)
	case "forall", "exists":
		binds := map[string]TV{}
		var vars []*Term
		var guards []*Term
		for _, qv := range e.Vars {
			t := c.typeByName(qv.Type)
			if t == nil {
				return c.fail("unknown type %s in quantifier", qv.Type)
			}
			x.eng.qctr++
			v := tb.Var(fmt.Sprintf("%s?%d", qv.Name, x.eng.qctr), x.sortOf(t))
			vars = append(vars, v)
			binds[qv.Name] = TV{V: v, T: t}
			guards = append(guards, x.typeInv(v, t, nil))
		}
		body := c.with(binds).boolTerm(e.Args[0])
		if c.err != nil {
			return c.fail("")
		}
		g := tb.And(guards...)
		if e.Kind == "forall" {
			return TV{V: tb.Forall(vars, tb.Implies(g, body)), T: boolT}
		}
		return TV{V: tb.Exists(vars, tb.And(g, body)), T: boolT}
	}
	return c.fail("cannot evaluate %s", e)
}

// specIntType: arithmetic results in mode-int contracts are unbounded; keep a
// signed 64-bit type tag so comparisons stay mathematical.
func specIntType(t types.Type) types.Type { return types.Typ[types.Int] }

func firstType(t, def types.Type) types.Type {
	if t != nil {
		return t
	}
	return def
}

func isIntType(t types.Type) bool {
	_, _, ok := intInfo(t)
	return ok
}

func (c *EvalCtx) constFold(op token.Token, a, b *big.Int) TV {
	tb := c.x.tb
	r := new(big.Int)
	switch op {
	case token.ADD:
		r.Add(a, b)
	case token.SUB:
		r.Sub(a, b)
	case token.MUL:
		r.Mul(a, b)
	case token.QUO:
		if b.Sign() == 0 {
			return c.fail("division by zero")
		}
		r.Quo(a, b)
	case token.REM:
		if b.Sign() == 0 {
			return c.fail("division by zero")
		}
		r.Rem(a, b)
	case token.AND:
		r.And(a, b)
	case token.OR:
		r.Or(a, b)
	case token.XOR:
		r.Xor(a, b)
	case token.AND_NOT:
		r.AndNot(a, b)
	case token.SHL:
		r.Lsh(a, uint(b.Int64()))
	case token.SHR:
		r.Rsh(a, uint(b.Int64()))
	default:
		cmp := a.Cmp(b)
		var res bool
		switch op {
		case token.EQL:
			res = cmp == 0
		case token.NEQ:
			res = cmp != 0
		case token.LSS:
			res = cmp < 0
		case token.LEQ:
			res = cmp <= 0
		case token.GTR:
			res = cmp > 0
		case token.GEQ:
			res = cmp >= 0
		}
		return TV{V: tb.Bool(res), T: types.Typ[types.Bool]}
	}
	return TV{Untyped: r}
}

func (c *EvalCtx) equalValues(a, b TV) (*Term, bool) {
	x := c.x
	tb := x.tb
	// nil comparisons
	isNil := func(v TV) bool { _, ok := v.V.(nilV); return ok }
	if isNil(a) {
		a, b = b, a
	}
	if isNil(b) {
		switch av := a.V.(type) {
		case SliceV:
			return tb.Eq(av.Arr, tb.IntC(0)), true
		case *Term:
			return tb.Eq(av, tb.IntC(0)), true
		case nilV:
			return tb.True(), true
		case FuncV:
			return tb.False(), true // a function literal / method value is never nil
		}
		return nil, false
	}
	switch av := a.V.(type) {
	case StructV:
		if bv, ok := b.V.(StructV); ok {
			return x.structEqual(av, bv), true
		}
	case *Term:
		if bv, ok := b.V.(*Term); ok && av.Sort == bv.Sort && (av.Sort.Kind == SBool || av.Sort.Kind == SArray || !isIntType(firstType(a.T, types.Typ[types.Bool]))) {
			return tb.Eq(av, bv), true
		}
	case SliceV:
		if bv, ok := b.V.(SliceV); ok {
			return tb.And(tb.Eq(av.Arr, bv.Arr), tb.Eq(av.Off, bv.Off), tb.Eq(av.Len, bv.Len), tb.Eq(av.Cap, bv.Cap)), true
		}
	}
	return nil, false
}

type nilV struct{}

func (c *EvalCtx) ident(name string) TV {
	x := c.x
	tb := x.tb
	if v, ok := c.binds[name]; ok {
		return v
	}
	switch name {
	case "true":
		return TV{V: tb.True(), T: types.Typ[types.Bool]}
	case "false":
		return TV{V: tb.False(), T: types.Typ[types.Bool]}
	case "nil":
		return TV{V: nilV{}, T: types.Typ[types.UntypedNil]}
	case "result":
		if len(c.results) >= 1 {
			return c.results[0]
		}
		return c.fail("no result in this context")
	}
	for i, n := range c.resNames {
		if n == name && i < len(c.results) {
			return c.results[i]
		}
	}
	if strings.HasPrefix(name, "$") {
		g, ok := x.eng.specs.Ghosts[name[1:]]
		if !ok {
			return c.fail("unknown ghost variable %s", name)
		}
		t := c.typeByName(g.Type)
		if t == nil {
			return c.fail("type %s of ghost variable %s cannot be resolved here", g.Type, name)
		}
		gv := x.ghostGet(c.cur, "$"+g.Name, x.sortOf(t))
		if gv.Sort.Kind != SArray {
			x.axiom(x.typeInv(gv, t, nil))
		}
		return TV{V: gv, T: t}
	}
	if c.paramsFirst {
		if v, ok := c.params[name]; ok {
			return v
		}
	}
	if c.frame != nil {
		// current value of a local / parameter cell
		if a := findCell(c.frame.fn, name); a != nil {
			if v, ok := c.cur.cells[a]; ok {
				return TV{V: v, T: derefType(a.Type())}
			}
			if v, ok := c.cur.regs[a]; ok {
				if _, isT := v.(*Term); isT {
					return TV{V: v, T: a.Type()}
				}
			}
			if c.paramsFirst {
				// the local is not live on this path: an arbitrary value of its type
				et := derefType(a.Type())
				if isStruct(et) {
					return TV{V: x.tb.Fresh("dead."+name, IntSort), T: a.Type()}
				}
				return TV{V: x.freshOf("dead."+name, et), T: et}
			}
		}
	}
	if v, ok := c.params[name]; ok {
		return v
	}
	// entry-value alias  p0 / lo0
	if strings.HasSuffix(name, "0") {
		if v, ok := c.params[strings.TrimSuffix(name, "0")]; ok {
			return v
		}
	}
	if c.pkg != nil {
		if o := c.pkg.Scope().Lookup(name); o != nil {
			return c.object(o)
		}
	}
	if o := types.Universe.Lookup(name); o != nil {
		if cn, ok := o.(*types.Const); ok {
			return c.constObj(cn)
		}
	}
	return c.fail("unknown identifier %s", name)
}

func findCell(fn *ssa.Function, name string) *ssa.Alloc {
	var best *ssa.Alloc
	// name#k: the k-th local of that name in source order (shadowed / compiler-generated names)
	if i := strings.Index(name, "#"); i > 0 {
		var k int
		fmt.Sscanf(name[i+1:], "%d", &k)
		var all []*ssa.Alloc
		for _, b := range fn.Blocks {
			for _, in := range b.Instrs {
				if a, ok := in.(*ssa.Alloc); ok && a.Comment == name[:i] {
					all = append(all, a)
				}
			}
		}
		sort.SliceStable(all, func(i, j int) bool { return all[i].Pos() < all[j].Pos() })
		if k >= 1 && k <= len(all) {
			return all[k-1]
		}
		return nil
	}
	for _, b := range fn.Blocks {
		for _, in := range b.Instrs {
			if a, ok := in.(*ssa.Alloc); ok && a.Comment == name {
				if best == nil {
					best = a
				}
			}
		}
	}
	for _, l := range fn.Locals {
		if l.Comment == name && best == nil {
			best = l
		}
	}
	return best
}

func (c *EvalCtx) constObj(cn *types.Const) TV {
	x := c.x
	switch cn.Val().Kind() {
	case constant.Int:
		v, _ := new(big.Int).SetString(cn.Val().ExactString(), 10)
		if b, ok := cn.Type().Underlying().(*types.Basic); ok && b.Info()&types.IsUntyped != 0 {
			return TV{Untyped: v}
		}
		return TV{V: x.intConst(v, cn.Type()), T: cn.Type()}
	case constant.Bool:
		return TV{V: x.tb.Bool(constant.BoolVal(cn.Val())), T: types.Typ[types.Bool]}
	case constant.String:
		return TV{V: x.stringConst(constant.StringVal(cn.Val())), T: types.Typ[types.String]}
	}
	return c.fail("unsupported constant %s", cn.Name())
}

func (c *EvalCtx) object(o types.Object) TV {
	x := c.x
	switch ov := o.(type) {
	case *types.Const:
		return c.constObj(ov)
	case *types.Var:
		sp := x.eng.prog.Package(ov.Pkg())
		if sp == nil {
			return c.fail("package of %s not loaded", ov.Name())
		}
		g, ok := sp.Members[ov.Name()].(*ssa.Global)
		if !ok {
			return c.fail("%s is not a global", ov.Name())
		}
		et := derefType(g.Type())
		if isStruct(et) {
			return TV{V: x.globalRef(g), T: types.NewPointer(et)}
		}
		return TV{V: x.loadGlobal(c.cur, g, et), T: et}
	case *types.Func:
		sp := x.eng.prog.Package(ov.Pkg())
		if sp != nil {
			if f := sp.Func(ov.Name()); f != nil {
				return TV{V: FuncV{Fn: f}, T: ov.Type()}
			}
		}
	}
	return c.fail("cannot use %s in a contract", o.Name())
}

func (c *EvalCtx) pkgByAlias(name string) *types.Package {
	if c.pkg != nil {
		for _, imp := range c.pkg.Imports() {
			if imp.Name() == name {
				return imp
			}
		}
	}
	if p, ok := stdPkgAlias[name]; ok {
		for _, sp := range c.x.eng.prog.AllPackages() {
			if sp.Pkg.Path() == p {
				return sp.Pkg
			}
		}
	}
	return nil
}

// findField resolves a (possibly promoted) field by name.
func findField(t types.Type, name string) (path []*fieldInfo, ok bool) {
	if !isStruct(t) {
		return nil, false
	}
	l := layoutOf(t)
	if fi := l.field(name); fi != nil {
		return []*fieldInfo{fi}, true
	}
	st := t.Underlying().(*types.Struct)
	for i := 0; i < st.NumFields(); i++ {
		if st.Field(i).Embedded() {
			ft := st.Field(i).Type()
			if p, isPtr := ft.Underlying().(*types.Pointer); isPtr {
				_ = p
				continue
			}
			if sub, ok := findField(ft, name); ok {
				return append([]*fieldInfo{&l.Fields[i]}, sub...), true
			}
		}
	}
	return nil, false
}

func (c *EvalCtx) field(e *Expr) TV {
	x := c.x
	// qualified identifier pkg.Name
	if id := e.Args[0]; id.Kind == "ident" {
		if _, isVal := c.tryIdent(id.Name); !isVal {
			if p := c.pkgByAlias(id.Name); p != nil {
				if o := p.Scope().Lookup(e.Name); o != nil {
					return c.object(o)
				}
				return c.fail("%s.%s not found", id.Name, e.Name)
			}
		}
	}
	base := c.eval(e.Args[0])
	if c.err != nil {
		return base
	}
	if strings.HasPrefix(e.Name, "$") {
		g, ok := x.eng.specs.Ghosts["."+e.Name[1:]]
		if !ok {
			return c.fail("unknown ghost field %s", e.Name)
		}
		gt := c.typeByName(g.Type)
		if gt == nil {
			return c.fail("type %s of ghost field %s cannot be resolved here", g.Type, e.Name)
		}
		var r *Term
		switch bv := base.V.(type) {
		case StructV:
			r = bv.Ref
		case *Term:
			r = bv
		default:
			return c.fail("ghost field of %T", base.V)
		}
		m := x.heapGet(c.cur.heap, "H.$."+g.Name, ArraySort(IntSort, x.sortOf(gt)))
		v := x.sel(m, r)
		if !mentionsBound(v) {
			x.axiom(x.typeInv(v, gt, nil))
		}
		return TV{V: v, T: gt}
	}
	var ref *Term
	var h *Heap
	var st types.Type
	switch bv := base.V.(type) {
	case StructV:
		ref, h, st = bv.Ref, bv.H, bv.T
	case *Term:
		pt, ok := base.T.Underlying().(*types.Pointer)
		if !ok || !isStruct(pt.Elem()) {
			return c.fail("field %s of non-struct %s (%s)", e.Name, e.Args[0], base.T)
		}
		ref, h, st = bv, c.cur.heap, pt.Elem()
	default:
		return c.fail("field %s of %T", e.Name, base.V)
	}
	path, ok := findField(st, e.Name)
	if !ok {
		return c.fail("no field %s in %s", e.Name, st)
	}
	for _, fi := range path[:len(path)-1] {
		ref = x.refAdd(ref, fi.Off)
	}
	fi := path[len(path)-1]
	v := x.loadField(h, ref, fi)
	if t, ok := v.(*Term); ok {
		x.axiom(x.typeInv(t, fi.T, nil))
		if w, s, isI := intInfo(fi.T); isI && !s && !x.bv {
			x.setBits(t, w)
		}
	}
	if sv, ok := v.(SliceV); ok {
		x.axiom(x.typeInv(sv, fi.T, nil))
		c.fact(x.tb.Lt(sv.Arr, h.A))
	}
	if t, ok := v.(*Term); ok && isRefLike(fi.T) && !isString(fi.T) && t.Sort == IntSort {
		c.fact(x.tb.Lt(t, h.A))
		if ext := pointeeExtent(fi.T); ext > 1 {
			c.fact(x.tb.Implies(x.tb.Ne(t, x.tb.IntC(0)), x.tb.Le(x.tb.Add(t, x.tb.IntC(ext)), h.A)))
		}
	}
	ft := fi.T
	if isStruct(ft) {
		// struct-typed field: keep as struct value; also usable as pointer target
		return TV{V: v, T: ft}
	}
	return TV{V: v, T: ft}
}

func (c *EvalCtx) tryIdent(name string) (TV, bool) {
	save := c.err
	v := c.ident(name)
	ok := c.err == save
	c.err = save
	return v, ok
}

func (c *EvalCtx) index(e *Expr) TV {
	x := c.x
	tb := x.tb
	base := c.eval(e.Args[0])
	iv := c.eval(e.Args[1])
	if c.err != nil {
		return base
	}
	i := c.mat(iv, types.Typ[types.Int])
	if x.bv && i.Sort.Width != 64 {
		_, s, _ := intInfo(iv.T)
		i = tb.BVResize(i, 64, s)
	}
	switch bv := base.V.(type) {
	case SliceV:
		et := base.T.Underlying().(*types.Slice).Elem()
		if isStruct(et) {
			ref := tb.Add(bv.Arr, tb.Mul(x.toInt(x.iadd(bv.Off, i)), tb.IntC(slotSize(et))))
			return TV{V: StructV{H: c.cur.heap, Ref: ref, T: et}, T: et}
		}
		m := x.heapGet(c.cur.heap, "E."+elemKey(et), x.contentsSort(et))
		v := x.sel(x.sel(m, bv.Arr), x.iadd(bv.Off, i))
		x.axiom(x.typeInv(v, et, nil))
		return TV{V: v, T: et}
	case StructArrV:
		at := bv.T.Underlying().(*types.Array)
		ref := tb.Add(bv.Ref, tb.Mul(x.toInt(i), tb.IntC(slotSize(at.Elem()))))
		return TV{V: StructV{H: bv.H, Ref: ref, T: at.Elem()}, T: at.Elem()}
	case *Term:
		if isString(base.T) {
			bt := types.Typ[types.Uint8]
			v := tb.UF("gstr.at", x.sortOf(bt), bv, i)
			x.axiom(x.typeInv(v, bt, nil))
			return TV{V: v, T: bt}
		}
		if at, ok := base.T.Underlying().(*types.Array); ok && bv.Sort.Kind == SArray {
			v := x.sel(bv, i)
			x.axiom(x.typeInv(v, at.Elem(), nil))
			return TV{V: v, T: at.Elem()}
		}
		// local array variable (naive form keeps it in the heap): pointer to array
		if pt, ok := base.T.Underlying().(*types.Pointer); ok {
			if at, ok := pt.Elem().Underlying().(*types.Array); ok && !isStruct(at.Elem()) && bv.Sort == IntSort {
				m := x.heapGet(c.cur.heap, "E."+elemKey(at.Elem()), x.contentsSort(at.Elem()))
				v := x.sel(x.sel(m, bv), i)
				x.axiom(x.typeInv(v, at.Elem(), nil))
				return TV{V: v, T: at.Elem()}
			}
		}
	}
	return c.fail("cannot index %s", e.Args[0])
}

func (c *EvalCtx) sliceExpr(e *Expr) TV {
	x := c.x
	base := c.eval(e.Args[0])
	sv, ok := base.V.(SliceV)
	if !ok {
		return c.fail("slice expression on non-slice %s", e.Args[0])
	}
	lo := x.idx(0)
	hi := sv.Len
	if e.Args[1] != nil {
		lo = c.mat(c.eval(e.Args[1]), types.Typ[types.Int])
	}
	if e.Args[2] != nil {
		hi = c.mat(c.eval(e.Args[2]), types.Typ[types.Int])
	}
	return TV{V: SliceV{Arr: sv.Arr, Off: x.iadd(sv.Off, lo), Len: x.isub(hi, lo), Cap: x.isub(sv.Cap, lo)}, T: base.T}
}

func (c *EvalCtx) callExpr(e *Expr) TV {
	x := c.x
	tb := x.tb
	boolT := types.Typ[types.Bool]
	callee := e.Args[0]
	args := e.Args[1:]
	if callee.Kind != "ident" {
		return c.fail("unsupported call target %s", callee)
	}
	name := callee.Name
	switch name {
	case "old":
		n := *c
		n.cur = c.old
		n.frame = nil
		r := n.eval(args[0])
		if n.err != nil && c.err == nil {
			c.err = n.err
		}
		return r
	case "len", "cap":
		v := c.eval(args[0])
		switch vv := v.V.(type) {
		case SliceV:
			if name == "len" {
				return TV{V: vv.Len, T: types.Typ[types.Int]}
			}
			return TV{V: vv.Cap, T: types.Typ[types.Int]}
		case *Term:
			if at, ok := v.T.Underlying().(*types.Array); ok {
				return TV{V: x.idx(at.Len()), T: types.Typ[types.Int]}
			}
			if isString(v.T) {
				n := tb.UF("gstr.len", x.intSort(), vv)
				x.axiom(x.le(x.idx(0), n))
				return TV{V: n, T: types.Typ[types.Int]}
			}
		}
		return c.fail("len of %s", args[0])
	case "ite":
		cond := c.boolTerm(args[0])
		a, b := c.eval(args[1]), c.eval(args[2])
		if a.Untyped != nil && b.Untyped != nil {
			t := types.Typ[types.Int]
			return TV{V: tb.Ite(cond, c.mat(a, t), c.mat(b, t)), T: t}
		}
		ta, tbt, t := c.unify(a, b)
		return TV{V: tb.Ite(cond, ta, tbt), T: t}
	case "fresh":
		v := c.eval(args[0])
		switch vv := v.V.(type) {
		case *Term:
			return TV{V: tb.Le(c.oldA, vv), T: boolT}
		case SliceV:
			return TV{V: tb.Le(c.oldA, vv.Arr), T: boolT}
		}
		return c.fail("fresh() of non-reference")
	case "as":
		// as(e, T): view the reference e as a value of pointer type T
		v := c.eval(args[0])
		t := c.typeByName(strings.ReplaceAll(strings.TrimSpace(args[1].String()), " ", ""))
		if t == nil {
			return c.fail("unknown type %s", args[1])
		}
		if isStruct(t) {
			// a struct value boxed in an interface lives at the interface's reference
			return TV{V: StructV{H: c.cur.heap, Ref: c.mat(v, v.T), T: t}, T: t}
		}
		return TV{V: c.mat(v, v.T), T: t}
	case "xzsentinel":
		// one of package xz's own package-level error sentinels
		v := c.eval(args[0])
		t := c.mat(v, v.T)
		return TV{V: tb.And(tb.Le(tb.IntC(1000), t), tb.Lt(t, tb.IntC(1500))), T: boolT}
	case "modsentinel":
		// the error value is one of the module's own package-level sentinels
		v := c.eval(args[0])
		t := c.mat(v, v.T)
		return TV{V: tb.And(tb.Le(tb.IntC(1000), t), tb.Lt(t, tb.IntC(2000))), T: boolT}
	case "implements":
		v := c.eval(args[0])
		t := c.typeByName(strings.TrimSpace(args[1].String()))
		if t == nil {
			return c.fail("unknown type %s", args[1])
		}
		r := c.mat(v, v.T)
		return TV{V: tb.And(tb.UF("implements."+typeKey(t), BoolSort, x.typeOf(r)), tb.Ne(r, tb.IntC(0))), T: boolT}
	case "typeis":
		v := c.eval(args[0])
		t := c.typeByName(strings.TrimSpace(args[1].String()))
		if t == nil {
			return c.fail("unknown type %s", args[1])
		}
		return TV{V: tb.And(tb.Ne(c.mat(v, v.T), tb.IntC(0)), tb.Eq(x.typeOf(c.mat(v, v.T)), x.typeTag(t))), T: boolT}
	case "unboxed":
		// unboxed(e, T): the struct value boxed in interface e
		v := c.eval(args[0])
		t := c.typeByName(strings.TrimSpace(args[1].String()))
		if t == nil {
			return c.fail("unknown type %s", args[1])
		}
		return TV{V: StructV{H: c.cur.heap, Ref: c.mat(v, v.T), T: t}, T: t}
	case "min", "max":
		a, b := c.eval(args[0]), c.eval(args[1])
		ta, tbt, t := c.unify(a, b)
		lt := x.binop(token.LSS, ta, tbt, firstType(t, types.Typ[types.Int]), t, "", nil).(*Term)
		if name == "min" {
			return TV{V: tb.Ite(lt, ta, tbt), T: t}
		}
		return TV{V: tb.Ite(lt, tbt, ta), T: t}
	case "ref":
		// ref(e): the object reference behind a pointer / struct value
		v := c.eval(args[0])
		if sv, ok := v.V.(StructV); ok {
			return TV{V: sv.Ref, T: types.NewPointer(sv.T)}
		}
		return v
	case "disjoint":
		// disjoint(p, q): the objects behind two pointers to structs do not overlap
		a, b := c.eval(args[0]), c.eval(args[1])
		ea, eb := pointeeExtent(firstType(a.T, types.Typ[types.Int])), pointeeExtent(firstType(b.T, types.Typ[types.Int]))
		ta, tbt := c.mat(a, a.T), c.mat(b, b.T)
		return TV{V: tb.Or(tb.Le(tb.Add(ta, tb.IntC(ea)), tbt), tb.Le(tb.Add(tbt, tb.IntC(eb)), ta)), T: boolT}
	case "addr":
		// addr(e.f): the reference of the struct- or array-typed field f inside its object
		if args[0].Kind != "field" {
			return c.fail("addr() needs a field expression")
		}
		r, fi, err := x.fieldRef(args[0], c)
		if err != nil {
			return c.fail("addr(): %v", err)
		}
		return TV{V: x.refAdd(r, fi.Off), T: types.NewPointer(types.NewStruct(nil, nil))}
	case "arr":
		v := c.eval(args[0])
		if sv, ok := v.V.(SliceV); ok {
			return TV{V: sv.Arr, T: types.NewPointer(types.NewStruct(nil, nil))}
		}
		return c.fail("arr() of non-slice")
	case "off":
		v := c.eval(args[0])
		if sv, ok := v.V.(SliceV); ok {
			return TV{V: sv.Off, T: types.Typ[types.Int]}
		}
		return c.fail("off() of non-slice")
	}
	if name == "u16at" || name == "u8at" || name == "u32at" {
		a := c.eval(args[0])
		k := c.eval(args[1])
		et := map[string]types.Type{"u16at": types.Typ[types.Uint16], "u8at": types.Typ[types.Uint8], "u32at": types.Typ[types.Uint32]}[name]
		m := x.heapGet(c.cur.heap, "E."+elemKey(et), x.contentsSort(et))
		ki := c.mat(k, types.Typ[types.Int])
		if x.bv && ki.Sort.Width != 64 {
			ki = tb.BVResize(ki, 64, true)
		}
		return TV{V: x.sel(x.sel(m, c.mat(a, a.T)), ki), T: et}
	}
	if name == "elems" {
		v := c.eval(args[0])
		sv, ok := v.V.(SliceV)
		if !ok {
			return c.fail("elems() of non-slice")
		}
		et := v.T.Underlying().(*types.Slice).Elem()
		m := x.heapGet(c.cur.heap, "E."+elemKey(et), x.contentsSort(et))
		return TV{V: x.sel(m, sv.Arr), T: types.NewArray(et, 1<<40)}
	}
	if strings.HasPrefix(name, "uf_") || strings.HasPrefix(name, "ufb_") {
		var ts []*Term
		for _, a := range args {
			v := c.eval(a)
			if sv, ok := v.V.(SliceV); ok {
				ts = append(ts, sv.Arr, sv.Off, sv.Len)
				continue
			}
			ts = append(ts, c.mat(v, v.T))
		}
		if strings.HasPrefix(name, "ufb_") {
			return TV{V: tb.UF(name, BoolSort, ts...), T: boolT}
		}
		if name == "uf_hupd" && len(ts) == 4 && ts[3].IsConst() && ts[3].Val.IsInt64() && ts[3].Val.Int64() >= 0 && ts[3].Val.Int64() <= 32 {
			// a hash update over a short constant-length range is the fold of the per-byte step,
			// so that it depends on the covered bytes only
			h := ts[0]
			for i := int64(0); i < ts[3].Val.Int64(); i++ {
				h = tb.UF("uf_hstep", h.Sort, h, x.sel(ts[1], x.iadd(ts[2], x.idx(i))))
			}
			return TV{V: h, T: types.Typ[types.Int]}
		}
		rt := types.Typ[types.Int]
		if strings.HasPrefix(name, "uf_u32_") {
			rt = types.Typ[types.Uint32]
		} else if strings.HasPrefix(name, "uf_u64_") {
			rt = types.Typ[types.Uint64]
		} else if strings.HasPrefix(name, "uf_u8_") {
			rt = types.Typ[types.Uint8]
		}
		r := tb.UF(name, x.sortOf(rt), ts...)
		if !mentionsBound(r) {
			x.axiom(x.typeInv(r, rt, nil))
		}
		return TV{V: r, T: rt}
	}
	// type conversion
	if t := c.typeByName(name); t != nil && len(args) == 1 {
		v := c.eval(args[0])
		if v.Untyped != nil {
			if isIntType(t) {
				return TV{V: x.intConst(v.Untyped, t), T: t}
			}
			return TV{V: c.mat(v, t), T: t}
		}
		if isIntType(t) && isIntType(firstType(v.T, t)) {
			vt := c.mat(v, v.T)
			return TV{V: x.convert(vt, v.T, t), T: t}
		}
		return TV{V: v.V, T: t}
	}
	// spec function / predicate
	if fn, ok := x.eng.specs.Fns[name]; ok {
		if len(args) != len(fn.Params) {
			return c.fail("%s expects %d arguments", name, len(fn.Params))
		}
		if c.depth > 40 {
			return c.fail("spec function recursion too deep in %s", name)
		}
		binds := map[string]TV{}
		for i, p := range fn.Params {
			v := c.eval(args[i])
			pt := c.typeByName(p.Type)
			if v.Untyped != nil {
				if pt == nil {
					pt = types.Typ[types.Int]
				}
				v = TV{V: c.mat(v, pt), T: pt}
			} else if pt != nil && isIntType(pt) && isIntType(firstType(v.T, pt)) {
				vt := c.mat(v, v.T)
				if x.bv {
					vt = x.convert(vt, v.T, pt)
				}
				v = TV{V: vt, T: pt}
			}
			binds[p.Name] = v
		}
		n := *c
		n.binds = binds
		n.depth = c.depth + 1
		n.frame = nil
		n.params = nil
		n.results = nil
		n.resNames = nil
		r := n.eval(fn.Body)
		if n.err != nil && c.err == nil {
			c.err = fmt.Errorf("in %s: %v", name, n.err)
		}
		if fn.ResType != "" && fn.ResType != "bool" {
			if rt := c.typeByName(fn.ResType); rt != nil {
				if r.Untyped != nil {
					r = TV{V: c.mat(r, rt), T: rt}
				} else if x.bv && isIntType(rt) && isIntType(firstType(r.T, rt)) {
					r = TV{V: x.convert(c.mat(r, r.T), r.T, rt), T: rt}
				} else {
					r.T = rt
				}
			}
		}
		return r
	}
	return c.fail("unknown function %s in contract", name)
}

func (c *EvalCtx) fact(t *Term) {
	if c.facts == nil || mentionsBound(t) {
		return
	}
	*c.facts = append(*c.facts, t)
}

// boolWithFacts evaluates a clause and returns it together with the side facts collected.
func (c *EvalCtx) boolWithFacts(e *Expr) (*Term, *Term) {
	var fs []*Term
	c.facts = &fs
	g := c.boolTerm(e)
	c.facts = nil
	return g, c.x.tb.And(fs...)
}
