package main

// Contract files: Gobra-style "//@" comment lines, keyed by function.
// Grammar of a file:
//   //@ package <import path>             (for spec files outside /repo)
//   //@ func <Name> | <Recv>.<Name> | <pkg>.<Name> | <pkg>.<Recv>.<Name>
//   //@   mode int|bv
//   //@   props C01 C02 ...
//   //@   requires <expr>
//   //@   ensures  <expr>
//   //@   modifies <item>, <item> ...
//   //@   loop <n> invariant <expr>
//   //@   loop <n> decreases <expr>
//   //@   loop <n> modifies <item>, ...
//   //@   assumed            (contract is assumed, body not verified: externals)
//   //@   nobody             (skip body verification but keep contract; listed as trusted)
//   //@ pred <name>(<params>) = <expr>
//   //@ spec <name>(<params>) <type> = <expr>
//   //@ ghost <name> <type>
// A trailing backslash continues a directive on the next //@ line.

import (
	"fmt"
	"math/big"
	"os"
	"path/filepath"
	"strings"
)

type Expr struct {
	Kind string // ident, num, str, unary, binary, call, index, slice, field, old, forall, exists, ite, paren
	Name string // ident name, operator, field name, callee name
	Val  *big.Int
	Args []*Expr
	Vars []QVar
	Src  string
}

type QVar struct {
	Name string
	Type string
}

type Clause struct {
	E     *Expr
	Src   string
	Props []string // restriction to properties (nil: all the function's)
	Label string
}

type LoopSpec struct {
	Invariants []Clause
	Decreases  []Clause
	Modifies   []*Expr
	HasMod     bool
}

type Contract struct {
	Key      string // pkgpath.Recv.Name
	Mode     string
	Props    []string
	Requires []Clause
	Ensures  []Clause
	Checks   []Clause // callee-side only; may mention locals at the return
	Effects  []Clause // definitional ghost effects: assumed at call sites, never checked
	Modifies []*Expr
	HasMod   bool
	Loops    map[int]*LoopSpec
	Assumed  bool
	NoBody   bool
	Inline   bool
	Split    bool                // path-sensitive execution (no state merging at joins)
	Dispatch map[string][]string // call site -> candidate methods (Type.Method) for an interface call
	Use      map[string]string   // call site -> key of the (assumed) contract to apply at this interface call instead of the generic one
	File     string
	Line     int
}

type SpecFn struct {
	Name    string
	Params  []QVar
	ResType string // "" for predicates (bool)
	Body    *Expr
	Src     string
}

type GhostVar struct {
	Name      string
	Type      string
	Field     bool
	Immutable bool
}

type Specs struct {
	Contracts map[string]*Contract
	Fns       map[string]*SpecFn
	Ghosts    map[string]*GhostVar
	Frames    map[string]*FrameDef
	Markers   []string // assume/trusted/external markers found (for evidence)
}

// FrameDef: a named list of modifies items ("frame htState(t *hashTable) = t.t[..], t.front"),
// expanded syntactically where a modifies clause names it.
type FrameDef struct {
	Params []string
	Items  []*Expr
}

func NewSpecs() *Specs {
	return &Specs{Contracts: map[string]*Contract{}, Fns: map[string]*SpecFn{}, Ghosts: map[string]*GhostVar{}, Frames: map[string]*FrameDef{}}
}

// LoadFile parses a contract file. defaultPkg is the import path used for
// unqualified function names.
func (sp *Specs) LoadFile(path, defaultPkg string) error {
	data, err := os.ReadFile(path)
	if err != nil {
		return err
	}
	var lines []string
	var lnos []int
	for i, l := range strings.Split(string(data), "\n") {
		t := strings.TrimSpace(l)
		if !strings.HasPrefix(t, "//@") {
			continue
		}
		t = strings.TrimSpace(t[3:])
		if t == "" {
			continue
		}
		if len(lines) > 0 && strings.HasSuffix(lines[len(lines)-1], "\\") {
			lines[len(lines)-1] = strings.TrimSuffix(lines[len(lines)-1], "\\") + " " + t
			continue
		}
		lines = append(lines, t)
		lnos = append(lnos, i+1)
	}
	pkg := defaultPkg
	var cur *Contract
	for i, l := range lines {
		where := fmt.Sprintf("%s:%d", filepath.Base(path), lnos[i])
		word, rest := splitWord(l)
		fail := func(e error) error { return fmt.Errorf("%s: %v (in %q)", where, e, l) }
		switch word {
		case "package":
			pkg = strings.TrimSpace(rest)
			cur = nil
		case "func":
			key := canonKey(pkg, strings.TrimSpace(rest))
			if _, dup := sp.Contracts[key]; dup {
				return fail(fmt.Errorf("duplicate contract for %s", key))
			}
			cur = &Contract{Key: key, Mode: "int", Loops: map[int]*LoopSpec{}, File: path, Line: lnos[i]}
			sp.Contracts[key] = cur
		case "pred", "spec":
			cur = nil
			fn, err := parseSpecFn(word, rest)
			if err != nil {
				return fail(err)
			}
			if _, dup := sp.Fns[fn.Name]; dup {
				return fail(fmt.Errorf("duplicate spec function %s", fn.Name))
			}
			sp.Fns[fn.Name] = fn
		case "frame":
			cur = nil
			eq := strings.Index(rest, " = ")
			lp := strings.Index(rest, "(")
			rp := strings.Index(rest, ")")
			if eq < 0 || lp < 0 || rp < lp || rp > eq {
				return fail(fmt.Errorf("frame needs name(params) = items"))
			}
			fd := &FrameDef{}
			for _, prm := range strings.Split(rest[lp+1:rp], ",") {
				n, _ := splitWord(strings.TrimSpace(prm))
				if n != "" {
					fd.Params = append(fd.Params, n)
				}
			}
			items, err := parseExprList(rest[eq+3:])
			if err != nil {
				return fail(err)
			}
			fd.Items = items
			sp.Frames[strings.TrimSpace(rest[:lp])] = fd
		case "ghost":
			cur = nil
			n, t := splitWord(rest)
			sp.Ghosts[n] = &GhostVar{Name: n, Type: strings.TrimSpace(t)}
		case "ghostfield":
			cur = nil
			n, t := splitWord(rest)
			t = strings.TrimSpace(t)
			imm := false
			if strings.HasSuffix(t, " immutable") {
				imm = true
				t = strings.TrimSpace(strings.TrimSuffix(t, " immutable"))
			}
			sp.Ghosts["."+n] = &GhostVar{Name: n, Type: t, Field: true, Immutable: imm}
		default:
			if cur == nil {
				return fail(fmt.Errorf("directive %q outside a func block", word))
			}
			switch word {
			case "mode":
				cur.Mode = strings.TrimSpace(rest)
			case "props":
				cur.Props = strings.Fields(rest)
			case "assumed":
				cur.Assumed = true
				sp.Markers = append(sp.Markers, where+": assumed contract "+cur.Key)
			case "nobody":
				cur.NoBody = true
				sp.Markers = append(sp.Markers, where+": trusted (body not verified) "+cur.Key)
			case "inline":
				cur.Inline = true
			case "split":
				cur.Split = true
			case "dispatch":
				f := strings.Fields(rest)
				if len(f) < 2 {
					return fail(fmt.Errorf("dispatch needs a call site and candidates"))
				}
				if cur.Dispatch == nil {
					cur.Dispatch = map[string][]string{}
				}
				cur.Dispatch[f[0]] = f[1:]
			case "use":
				f := strings.Fields(rest)
				if len(f) != 2 {
					return fail(fmt.Errorf("use needs a call site and a contract key"))
				}
				if cur.Use == nil {
					cur.Use = map[string]string{}
				}
				cur.Use[f[0]] = f[1]
				sp.Markers = append(sp.Markers, where+": "+cur.Key+" applies contract "+f[1]+" at "+f[0])
			case "requires", "ensures", "checks", "effect":
				props, rest2 := takeProps(rest)
				e, err := ParseExpr(rest2)
				if err != nil {
					return fail(err)
				}
				c := Clause{E: e, Src: strings.TrimSpace(rest2), Props: props}
				switch word {
				case "requires":
					cur.Requires = append(cur.Requires, c)
				case "ensures":
					cur.Ensures = append(cur.Ensures, c)
				case "checks":
					cur.Checks = append(cur.Checks, c)
				case "effect":
					cur.Effects = append(cur.Effects, c)
				}
			case "modifies":
				items, err := parseExprList(rest)
				if err != nil {
					return fail(err)
				}
				cur.Modifies = append(cur.Modifies, items...)
				cur.HasMod = true
			case "loop":
				ns, rest2 := splitWord(rest)
				var n int
				if _, err := fmt.Sscanf(ns, "%d", &n); err != nil {
					return fail(fmt.Errorf("bad loop ordinal %q", ns))
				}
				kind, rest3 := splitWord(rest2)
				ls := cur.Loops[n]
				if ls == nil {
					ls = &LoopSpec{}
					cur.Loops[n] = ls
				}
				switch kind {
				case "invariant", "decreases":
					var cprops []string
					if kind == "invariant" {
						cprops, rest3 = takeProps(rest3)
					}
					e, err := ParseExpr(rest3)
					if err != nil {
						return fail(err)
					}
					c := Clause{E: e, Src: strings.TrimSpace(rest3), Props: cprops}
					if kind == "invariant" {
						ls.Invariants = append(ls.Invariants, c)
					} else {
						ls.Decreases = append(ls.Decreases, c)
					}
				case "modifies":
					items, err := parseExprList(rest3)
					if err != nil {
						return fail(err)
					}
					ls.Modifies = append(ls.Modifies, items...)
					ls.HasMod = true
				default:
					return fail(fmt.Errorf("unknown loop directive %q", kind))
				}
			default:
				return fail(fmt.Errorf("unknown directive %q", word))
			}
		}
	}
	return nil
}

// takeProps parses an optional "[C01,C02]" prefix.
func takeProps(s string) ([]string, string) {
	s = strings.TrimSpace(s)
	if strings.HasPrefix(s, "[C") {
		if j := strings.Index(s, "]"); j > 0 {
			ps := strings.Split(s[1:j], ",")
			for i := range ps {
				ps[i] = strings.TrimSpace(ps[i])
			}
			return ps, s[j+1:]
		}
	}
	return nil, s
}

func splitWord(s string) (string, string) {
	s = strings.TrimSpace(s)
	i := strings.IndexAny(s, " \t")
	if i < 0 {
		return s, ""
	}
	return s[:i], strings.TrimSpace(s[i+1:])
}

// canonKey turns "buffer.Write", "EncodeDictCap", "io.ReadFull",
// "bytes.Buffer.Write" into pkgpath.Recv.Name / pkgpath.Name.
func canonKey(defaultPkg, name string) string {
	name = strings.NewReplacer("(", "", ")", "", "*", "").Replace(name)
	parts := strings.Split(name, ".")
	// a leading lower-case part that is a known std package selects that package
	if len(parts) >= 2 {
		if p, ok := stdPkgAlias[parts[0]]; ok {
			return p + "." + strings.Join(parts[1:], ".")
		}
	}
	return defaultPkg + "." + name
}

var stdPkgAlias = map[string]string{
	"io": "io", "bytes": "bytes", "bufio": "bufio", "os": "os", "errors": "errors", "fmt": "fmt",
	"hash": "hash", "crc32": "hash/crc32", "crc64": "hash/crc64", "sha256": "crypto/sha256",
	"strings": "strings", "filepath": "path/filepath", "xlog": "github.com/ulikunitz/xz/internal/xlog",
	"lzma": "github.com/ulikunitz/xz/lzma", "xz": "github.com/ulikunitz/xz",
	"xhash": "github.com/ulikunitz/xz/internal/hash", "gflag": "github.com/ulikunitz/xz/internal/gflag",
	"signal": "os/signal", "unicode": "unicode", "syscall": "syscall", "term": "github.com/ulikunitz/xz/internal/term",
}

func parseSpecFn(kind, rest string) (*SpecFn, error) {
	eq := strings.Index(rest, " = ")
	if eq < 0 {
		return nil, fmt.Errorf("missing ' = ' in %s definition", kind)
	}
	head, body := strings.TrimSpace(rest[:eq]), strings.TrimSpace(rest[eq+3:])
	lp := strings.Index(head, "(")
	rp := strings.LastIndex(head, ")")
	if lp < 0 || rp < lp {
		return nil, fmt.Errorf("bad parameter list")
	}
	fn := &SpecFn{Name: strings.TrimSpace(head[:lp]), Src: rest}
	ps := strings.TrimSpace(head[lp+1 : rp])
	if ps != "" {
		for _, p := range strings.Split(ps, ",") {
			n, t := splitWord(p)
			if t == "" {
				return nil, fmt.Errorf("parameter %q needs a type", p)
			}
			fn.Params = append(fn.Params, QVar{Name: n, Type: t})
		}
	}
	fn.ResType = strings.TrimSpace(head[rp+1:])
	if kind == "pred" {
		fn.ResType = "bool"
	}
	e, err := ParseExpr(body)
	if err != nil {
		return nil, err
	}
	fn.Body = e
	return fn, nil
}

func parseExprList(s string) ([]*Expr, error) {
	p := &parser{toks: lex(s), src: s}
	var out []*Expr
	for {
		e, err := p.expr(0)
		if err != nil {
			return nil, err
		}
		out = append(out, e)
		if p.peek() == "," {
			p.next()
			continue
		}
		break
	}
	if p.peek() != "" {
		return nil, fmt.Errorf("unexpected %q", p.peek())
	}
	return out, nil
}

// ---------- expression lexer / Pratt parser ----------

type parser struct {
	toks []string
	pos  int
	src  string
}

func lex(s string) []string {
	var toks []string
	i := 0
	three := []string{"<==>", "==>", "&^", "<<", ">>", "&&", "||", "==", "!=", "<=", ">=", "::", ".."}
	for i < len(s) {
		c := s[i]
		switch {
		case c == ' ' || c == '\t':
			i++
		case c == '/' && i+1 < len(s) && s[i+1] == '/':
			i = len(s)
		case isIdentStart(c):
			j := i
			for j < len(s) && (isIdentStart(s[j]) || (s[j] >= '0' && s[j] <= '9')) {
				j++
			}
			// name#k: k-th local of that name
			if j+1 < len(s) && s[j] == '#' && s[j+1] >= '0' && s[j+1] <= '9' {
				j++
				for j < len(s) && s[j] >= '0' && s[j] <= '9' {
					j++
				}
			}
			toks = append(toks, s[i:j])
			i = j
		case c >= '0' && c <= '9':
			j := i
			for j < len(s) && (isIdentStart(s[j]) || (s[j] >= '0' && s[j] <= '9')) {
				j++
			}
			toks = append(toks, s[i:j])
			i = j
		case c == '\'':
			j := i + 1
			for j < len(s) && s[j] != '\'' {
				j++
			}
			toks = append(toks, s[i:min(j+1, len(s))])
			i = j + 1
		case c == '"':
			j := i + 1
			for j < len(s) && s[j] != '"' {
				j++
			}
			toks = append(toks, s[i:min(j+1, len(s))])
			i = j + 1
		default:
			matched := false
			for _, op := range three {
				if strings.HasPrefix(s[i:], op) {
					toks = append(toks, op)
					i += len(op)
					matched = true
					break
				}
			}
			if !matched {
				toks = append(toks, string(c))
				i++
			}
		}
	}
	return toks
}

func isIdentStart(c byte) bool {
	return c == '_' || c == '$' || (c >= 'a' && c <= 'z') || (c >= 'A' && c <= 'Z')
}

func (p *parser) peek() string {
	if p.pos < len(p.toks) {
		return p.toks[p.pos]
	}
	return ""
}
func (p *parser) next() string {
	t := p.peek()
	p.pos++
	return t
}
func (p *parser) expect(t string) error {
	if p.peek() != t {
		return fmt.Errorf("expected %q, got %q", t, p.peek())
	}
	p.pos++
	return nil
}

func ParseExpr(s string) (*Expr, error) {
	p := &parser{toks: lex(s), src: s}
	e, err := p.expr(0)
	if err != nil {
		return nil, err
	}
	if p.peek() != "" {
		return nil, fmt.Errorf("unexpected %q after expression", p.peek())
	}
	e.Src = strings.TrimSpace(s)
	return e, nil
}

// binding powers; ==> and <==> are right associative
var binPrec = map[string]int{
	"<==>": 1, "==>": 2, "||": 3, "&&": 4,
	"==": 5, "!=": 5, "<": 5, "<=": 5, ">": 5, ">=": 5,
	"+": 6, "-": 6, "|": 6, "^": 6,
	"*": 7, "/": 7, "%": 7, "<<": 7, ">>": 7, "&": 7, "&^": 7,
}

func (p *parser) expr(minPrec int) (*Expr, error) {
	lhs, err := p.unary()
	if err != nil {
		return nil, err
	}
	for {
		op := p.peek()
		prec, ok := binPrec[op]
		if !ok || prec < minPrec {
			return lhs, nil
		}
		p.next()
		nextMin := prec + 1
		if op == "==>" || op == "<==>" {
			nextMin = prec
		}
		rhs, err := p.expr(nextMin)
		if err != nil {
			return nil, err
		}
		lhs = &Expr{Kind: "binary", Name: op, Args: []*Expr{lhs, rhs}}
	}
}

func (p *parser) unary() (*Expr, error) {
	switch t := p.peek(); t {
	case "!", "-", "^", "*":
		p.next()
		e, err := p.unary()
		if err != nil {
			return nil, err
		}
		return &Expr{Kind: "unary", Name: t, Args: []*Expr{e}}, nil
	case "forall", "exists":
		p.next()
		q := &Expr{Kind: t}
		for {
			n := p.next()
			ty := p.next()
			q.Vars = append(q.Vars, QVar{Name: n, Type: ty})
			if p.peek() == "," {
				p.next()
				continue
			}
			break
		}
		if err := p.expect("::"); err != nil {
			return nil, err
		}
		body, err := p.expr(0)
		if err != nil {
			return nil, err
		}
		q.Args = []*Expr{body}
		return q, nil
	}
	return p.postfix()
}

func (p *parser) postfix() (*Expr, error) {
	e, err := p.primary()
	if err != nil {
		return nil, err
	}
	for {
		switch p.peek() {
		case ".":
			p.next()
			if p.peek() == "*" {
				p.next()
				e = &Expr{Kind: "field", Name: "*", Args: []*Expr{e}}
				continue
			}
			f := p.next()
			e = &Expr{Kind: "field", Name: f, Args: []*Expr{e}}
		case "[":
			p.next()
			if p.peek() == ".." {
				p.next()
				if err := p.expect("]"); err != nil {
					return nil, err
				}
				e = &Expr{Kind: "allelems", Args: []*Expr{e}}
				continue
			}
			var lo, hi *Expr
			if p.peek() != ":" {
				if lo, err = p.expr(0); err != nil {
					return nil, err
				}
			}
			if p.peek() == ":" {
				p.next()
				if p.peek() != "]" {
					if hi, err = p.expr(0); err != nil {
						return nil, err
					}
				}
				if err := p.expect("]"); err != nil {
					return nil, err
				}
				e = &Expr{Kind: "slice", Args: []*Expr{e, lo, hi}}
				continue
			}
			if err := p.expect("]"); err != nil {
				return nil, err
			}
			e = &Expr{Kind: "index", Args: []*Expr{e, lo}}
		case "(":
			p.next()
			var args []*Expr
			for p.peek() != ")" {
				a, err := p.expr(0)
				if err != nil {
					return nil, err
				}
				args = append(args, a)
				if p.peek() == "," {
					p.next()
				} else if p.peek() != ")" {
					return nil, fmt.Errorf("expected , or ) in call, got %q", p.peek())
				}
			}
			p.next()
			e = &Expr{Kind: "call", Args: append([]*Expr{e}, args...)}
		default:
			return e, nil
		}
	}
}

func (p *parser) primary() (*Expr, error) {
	t := p.next()
	switch {
	case t == "":
		return nil, fmt.Errorf("unexpected end of expression")
	case t == "(":
		e, err := p.expr(0)
		if err != nil {
			return nil, err
		}
		if err := p.expect(")"); err != nil {
			return nil, err
		}
		return e, nil
	case t[0] >= '0' && t[0] <= '9':
		v, ok := new(big.Int).SetString(strings.ReplaceAll(t, "_", ""), 0)
		if !ok {
			return nil, fmt.Errorf("bad number %q", t)
		}
		return &Expr{Kind: "num", Val: v}, nil
	case t[0] == '\'':
		if len(t) != 3 {
			return nil, fmt.Errorf("bad char literal %s", t)
		}
		return &Expr{Kind: "num", Val: big.NewInt(int64(t[1]))}, nil
	case t[0] == '"':
		return &Expr{Kind: "str", Name: strings.Trim(t, "\"")}, nil
	case isIdentStart(t[0]):
		return &Expr{Kind: "ident", Name: t}, nil
	}
	return nil, fmt.Errorf("unexpected token %q", t)
}

func (e *Expr) String() string {
	if e == nil {
		return "<nil>"
	}
	switch e.Kind {
	case "ident":
		return e.Name
	case "num":
		return e.Val.String()
	case "str":
		return fmt.Sprintf("%q", e.Name)
	case "unary":
		return e.Name + e.Args[0].String()
	case "binary":
		return "(" + e.Args[0].String() + " " + e.Name + " " + e.Args[1].String() + ")"
	case "field":
		return e.Args[0].String() + "." + e.Name
	case "index":
		return e.Args[0].String() + "[" + e.Args[1].String() + "]"
	case "allelems":
		return e.Args[0].String() + "[..]"
	case "slice":
		s := e.Args[0].String() + "["
		if e.Args[1] != nil {
			s += e.Args[1].String()
		}
		s += ":"
		if e.Args[2] != nil {
			s += e.Args[2].String()
		}
		return s + "]"
	case "call":
		var as []string
		for _, a := range e.Args[1:] {
			as = append(as, a.String())
		}
		return e.Args[0].String() + "(" + strings.Join(as, ", ") + ")"
	case "forall", "exists":
		var vs []string
		for _, v := range e.Vars {
			vs = append(vs, v.Name+" "+v.Type)
		}
		return "(" + e.Kind + " " + strings.Join(vs, ", ") + " :: " + e.Args[0].String() + ")"
	}
	return "?" + e.Kind
}

// ghostNames collects $ghost variable names mentioned in an expression.
func ghostNames(e *Expr, out map[string]bool) {
	if e == nil {
		return
	}
	if e.Kind == "ident" && strings.HasPrefix(e.Name, "$") {
		out[e.Name] = true
	}
	for _, a := range e.Args {
		ghostNames(a, out)
	}
}

// substExpr replaces identifiers by expressions (syntactic; used to expand frame definitions).
func substExpr(e *Expr, m map[string]*Expr) *Expr {
	if e == nil {
		return nil
	}
	if e.Kind == "ident" {
		if r, ok := m[e.Name]; ok {
			return r
		}
		return e
	}
	c := *e
	c.Args = make([]*Expr, len(e.Args))
	for i, a := range e.Args {
		c.Args[i] = substExpr(a, m)
	}
	c.Src = ""
	return &c
}
