package main

// Instruction semantics.

import (
	"fmt"
	"go/token"
	"go/types"
	"math/big"

	"golang.org/x/tools/go/ssa"
)

func (x *FnCtx) step(fr *Frame, st *State, instr ssa.Instruction) {
	tb := x.tb
	switch in := instr.(type) {
	case *ssa.DebugRef:
		return
	case *ssa.Alloc:
		et := derefType(in.Type())
		switch u := et.Underlying().(type) {
		case *types.Struct:
			r := x.alloc(st.heap, tb.IntC(layoutOf(et).Size))
			x.zeroStruct(st.heap, r, et)
			for _, off := range structOffsets(et) {
				x.zeroGhostFields(st, x.refAdd(r, off))
			}
			x.setReg(st, in, r)
		case *types.Array:
			n := int64(1)
			if isStruct(u.Elem()) {
				n = u.Len() * slotSize(u.Elem())
			}
			r := x.alloc(st.heap, tb.IntC(n))
			if isStruct(u.Elem()) {
				for k := int64(0); k < u.Len(); k++ {
					x.zeroStruct(st.heap, x.refAdd(r, k*slotSize(u.Elem())), u.Elem())
				}
			} else {
				name := "E." + elemKey(u.Elem())
				m := x.heapGet(st.heap, name, x.contentsSort(u.Elem()))
				st.heap.m[name] = tb.Store(m, r, x.zeroValue(et).(*Term))
			}
			x.setReg(st, in, r)
		default:
			x.setReg(st, in, LocV{Kind: LCell, Cell: in, Frame: fr, T: et})
			st.cells[in] = x.zeroOrUnknown(et)
		}
	case *ssa.Store:
		x.store(fr, st, x.val(fr, st, in.Addr), x.val(fr, st, in.Val), in.Addr.Type())
	case *ssa.UnOp:
		switch in.Op {
		case token.MUL:
			p := x.val(fr, st, in.X)
			if t, ok := p.(*Term); ok && x.needsNilCheck(in.X) {
				x.safetyOb("nil", fr.prefix+fr.siteOrd[in], st, tb.Ne(t, tb.IntC(0)))
			}
			x.setReg(st, in, x.load(fr, st, p, in.X.Type()))
		case token.ARROW:
			x.abstracted("channel receive")
			x.setReg(st, in, x.freshOf("unk_recv", in.Type()))
		default:
			x.setReg(st, in, x.unop(in.Op, x.term(fr, st, in.X), in.X.Type(), fr.prefix+fr.siteOrd[in], st))
		}
	case *ssa.BinOp:
		xt := in.X.Type()
		if isStruct(xt) {
			x.setReg(st, in, x.structEq(fr, st, in))
			return
		}
		if _, ok := xt.Underlying().(*types.Array); ok && (in.Op == token.EQL || in.Op == token.NEQ) {
			x.abstracted("array comparison")
			x.setReg(st, in, x.freshOf("unk_arrcmp", in.Type()))
			return
		}
		a, b := x.term(fr, st, in.X), x.term(fr, st, in.Y)
		x.setReg(st, in, x.binop(in.Op, a, b, xt, in.Y.Type(), fr.prefix+fr.siteOrd[in], st))
	case *ssa.Convert:
		x.setReg(st, in, x.convertValue(fr, st, in))
	case *ssa.ChangeType:
		x.setReg(st, in, x.val(fr, st, in.X))
	case *ssa.ChangeInterface:
		x.setReg(st, in, x.val(fr, st, in.X))
	case *ssa.MakeInterface:
		x.setReg(st, in, x.makeInterface(st, x.val(fr, st, in.X), in.X.Type()))
	case *ssa.TypeAssert:
		x.setReg(st, in, x.typeAssert(fr, st, in))
	case *ssa.FieldAddr:
		base := x.term(fr, st, in.X)
		stT := derefType(in.X.Type())
		l := layoutOf(stT)
		fi := &l.Fields[in.Field]
		x.setReg(st, in, x.fieldAddr(base, fi))
	case *ssa.Field:
		sv := x.val(fr, st, in.X)
		l := layoutOf(in.X.Type())
		fi := &l.Fields[in.Field]
		if s, ok := sv.(StructV); ok {
			v := x.loadField(s.H, s.Ref, fi)
			x.assumeTypeV(st, v, fi.T)
			x.setReg(st, in, v)
		} else {
			x.setReg(st, in, x.freshOf("unk_field", in.Type()))
		}
	case *ssa.IndexAddr:
		x.setReg(st, in, x.indexAddr(fr, st, in))
	case *ssa.Index:
		// index of array value / string
		if isString(in.X.Type()) {
			s := x.term(fr, st, in.X)
			i := x.term(fr, st, in.Index)
			i = x.toIntSort(i, in.Index.Type())
			n := tb.UF("gstr.len", x.intSort(), s)
			x.safetyOb("bounds", fr.prefix+fr.siteOrd[in], st, tb.And(x.le(x.idx(0), i), x.lt(i, n)))
			v := tb.UF("gstr.at", x.sortOf(in.Type()), s, i)
			x.assumeType(st, v, in.Type())
			x.setReg(st, in, v)
			return
		}
		a := x.val(fr, st, in.X)
		at, _ := in.X.Type().Underlying().(*types.Array)
		i := x.toIntSort(x.term(fr, st, in.Index), in.Index.Type())
		if at != nil {
			x.safetyOb("bounds", fr.prefix+fr.siteOrd[in], st, tb.And(x.le(x.idx(0), i), x.lt(i, x.idx(at.Len()))))
		}
		if t, ok := a.(*Term); ok && t.Sort.Kind == SArray {
			v := x.sel(t, i)
			x.assumeType(st, v, in.Type())
			x.setReg(st, in, v)
		} else {
			x.setReg(st, in, x.freshOf("unk_index", in.Type()))
		}
	case *ssa.Slice:
		x.setReg(st, in, x.sliceOp(fr, st, in))
	case *ssa.MakeSlice:
		et := in.Type().Underlying().(*types.Slice).Elem()
		n := x.toIntSort(x.term(fr, st, in.Len), in.Len.Type())
		c := x.toIntSort(x.term(fr, st, in.Cap), in.Cap.Type())
		x.safetyOb("makeslice", fr.prefix+fr.siteOrd[in], st, tb.And(x.le(x.idx(0), n), x.le(n, c)))
		x.setReg(st, in, x.makeSlice(st, et, n, c))
	case *ssa.Extract:
		tv := x.val(fr, st, in.Tuple)
		if t, ok := tv.(TupleV); ok && in.Index < len(t) {
			x.setReg(st, in, t[in.Index])
		} else {
			x.setReg(st, in, x.freshOf("unk_extract", in.Type()))
		}
	case *ssa.Phi:
		// only && / || in naive form: value depends on the predecessor taken.
		// All predecessors were merged; recover via the edge conditions recorded in phiConds.
		x.setReg(st, in, x.phi(fr, st, in))
	case *ssa.Call:
		x.setReg(st, in, x.call(fr, st, in, in.Common()))
	case *ssa.Defer:
		fr.defers = append(fr.defers, in)
		x.deferred(fr, st, in)
	case *ssa.RunDefers:
		x.runDefers(fr, st, in.Block())
	case *ssa.MakeClosure:
		var bs []Value
		for _, b := range in.Bindings {
			bs = append(bs, x.val(fr, st, b))
		}
		x.setReg(st, in, FuncV{Fn: in.Fn.(*ssa.Function), Bindings: bs})
	case *ssa.MakeMap, *ssa.MakeChan:
		r := x.alloc(st.heap, tb.IntC(1))
		x.setReg(st, instr.(ssa.Value), r)
	case *ssa.Lookup:
		if ld, ok := in.X.(*ssa.UnOp); ok && ld.Op == token.MUL && in.CommaOk && !x.inInit {
			if g, ok := ld.X.(*ssa.Global); ok {
				if keys, ok := x.eng.constMapKeys[g]; ok {
					// immutable map with a constant integer key set: presence is decided, the value stays unknown
					k := x.term(fr, st, in.Index)
					okc := tb.False()
					for _, kc := range keys {
						if kt, isT := x.constValue(kc).(*Term); isT {
							okc = tb.Or(okc, tb.Eq(k, kt))
						} else {
							okc = nil
							break
						}
					}
					if okc != nil {
						tv := x.freshOf("maplookup", in.Type())
						if t, isTuple := tv.(TupleV); isTuple && len(t) == 2 {
							t[1] = okc
							x.setReg(st, in, t)
							return
						}
					}
				}
			}
		}
		x.abstracted("map lookup")
		x.setReg(st, in, x.freshOf("unk_lookup", in.Type()))
	case *ssa.MapUpdate:
		x.abstracted("map update")
	case *ssa.Range:
		x.abstracted("range over map/string")
		x.setReg(st, in, UnknownV{"range iterator"})
	case *ssa.Next:
		x.setReg(st, in, x.freshOf("unk_next", in.Type()))
	case *ssa.Go:
		x.abstracted("go statement (ignored)")
	case *ssa.Send:
		x.abstracted("channel send (ignored)")
	case *ssa.Select:
		x.abstracted("select")
		x.setReg(st, in, x.freshOf("unk_select", in.Type()))
	case *ssa.SliceToArrayPointer, *ssa.MultiConvert:
		x.abstracted(fmt.Sprintf("%T", instr))
		x.setReg(st, instr.(ssa.Value), x.freshOf("unk", instr.(ssa.Value).Type()))
	default:
		x.abstracted(fmt.Sprintf("instruction %T", instr))
		if v, ok := instr.(ssa.Value); ok {
			x.setReg(st, v, x.freshOf("unk", v.Type()))
		}
	}
}

func (x *FnCtx) needsNilCheck(p ssa.Value) bool {
	switch v := p.(type) {
	case *ssa.Alloc, *ssa.FieldAddr, *ssa.IndexAddr, *ssa.Global:
		return false
	case *ssa.Parameter:
		return false
	case *ssa.UnOp:
		// pointer loaded from a parameter cell is the parameter itself
		if a, ok := v.X.(*ssa.Alloc); ok && v.Op == token.MUL {
			for _, r := range *a.Referrers() {
				if s, ok := r.(*ssa.Store); ok && s.Addr == a {
					if _, isParam := s.Val.(*ssa.Parameter); !isParam {
						return true
					}
				}
			}
			return false
		}
	}
	return true
}

func (x *FnCtx) toIntSort(t *Term, ty types.Type) *Term {
	if !x.bv {
		return t
	}
	_, s, _ := intInfo(ty)
	return x.tb.BVResize(t, 64, s)
}

func (x *FnCtx) fieldAddr(base *Term, fi *fieldInfo) Value {
	switch fi.T.Underlying().(type) {
	case *types.Struct, *types.Array:
		return x.refAdd(base, fi.Off)
	}
	return LocV{Kind: LField, Map: fieldMap(fi), Ref: base, T: fi.T}
}

func (x *FnCtx) indexAddr(fr *Frame, st *State, in *ssa.IndexAddr) Value {
	tb := x.tb
	i := x.toIntSort(x.term(fr, st, in.Index), in.Index.Type())
	site := fr.prefix + fr.siteOrd[in]
	switch xt := in.X.Type().Underlying().(type) {
	case *types.Slice:
		sv, ok := x.val(fr, st, in.X).(SliceV)
		if !ok {
			sv = x.freshOf("unk_slice", in.X.Type()).(SliceV)
		}
		x.safetyOb("bounds", site, st, tb.And(x.le(x.idx(0), i), x.lt(i, sv.Len)))
		et := xt.Elem()
		if isStruct(et) {
			return tb.Add(sv.Arr, tb.Mul(x.toInt(x.iadd(sv.Off, i)), tb.IntC(slotSize(et))))
		}
		return LocV{Kind: LElem, Ref: sv.Arr, Idx: x.iadd(sv.Off, i), T: et}
	case *types.Pointer:
		at := xt.Elem().Underlying().(*types.Array)
		ref := x.term(fr, st, in.X)
		x.safetyOb("bounds", site, st, tb.And(x.le(x.idx(0), i), x.lt(i, x.idx(at.Len()))))
		et := at.Elem()
		if isStruct(et) {
			return tb.Add(ref, tb.Mul(x.toInt(i), tb.IntC(slotSize(et))))
		}
		return LocV{Kind: LElem, Ref: ref, Idx: i, T: et}
	}
	x.abstracted("IndexAddr on " + in.X.Type().String())
	return UnknownV{"indexaddr"}
}

func (x *FnCtx) sliceOp(fr *Frame, st *State, in *ssa.Slice) Value {
	tb := x.tb
	site := fr.prefix + fr.siteOrd[in]
	get := func(v ssa.Value, def *Term) *Term {
		if v == nil {
			return def
		}
		return x.toIntSort(x.term(fr, st, v), v.Type())
	}
	z := x.idx(0)
	switch xt := in.X.Type().Underlying().(type) {
	case *types.Slice:
		sv, ok := x.val(fr, st, in.X).(SliceV)
		if !ok {
			sv = x.freshOf("unk_slice", in.X.Type()).(SliceV)
		}
		lo := get(in.Low, z)
		hi := get(in.High, sv.Len)
		mx := get(in.Max, sv.Cap)
		x.safetyOb("slice", site, st, tb.And(x.le(z, lo), x.le(lo, hi), x.le(hi, mx), x.le(mx, sv.Cap)))
		return SliceV{Arr: sv.Arr, Off: x.iadd(sv.Off, lo), Len: x.isub(hi, lo), Cap: x.isub(mx, lo)}
	case *types.Pointer:
		at := xt.Elem().Underlying().(*types.Array)
		ref := x.term(fr, st, in.X)
		n := x.idx(at.Len())
		lo := get(in.Low, z)
		hi := get(in.High, n)
		mx := get(in.Max, n)
		x.safetyOb("slice", site, st, tb.And(x.le(z, lo), x.le(lo, hi), x.le(hi, mx), x.le(mx, n)))
		if isStruct(at.Elem()) {
			x.abstracted("slice of array-of-struct")
		}
		return SliceV{Arr: ref, Off: lo, Len: x.isub(hi, lo), Cap: x.isub(mx, lo)}
	case *types.Basic: // string
		s := x.term(fr, st, in.X)
		n := tb.UF("gstr.len", x.intSort(), s)
		lo := get(in.Low, z)
		hi := get(in.High, n)
		x.safetyOb("slice", site, st, tb.And(x.le(z, lo), x.le(lo, hi), x.le(hi, n)))
		r := tb.UF("gstr.sub", IntSort, s, lo, hi)
		x.axiom(tb.Eq(tb.UF("gstr.len", x.intSort(), r), x.isub(hi, lo)))
		return r
	}
	x.abstracted("slice of " + in.X.Type().String())
	return x.freshOf("unk_slice", in.Type())
}

func (x *FnCtx) makeSlice(st *State, et types.Type, n, c *Term) SliceV {
	tb := x.tb
	sz := tb.IntC(1)
	if isStruct(et) {
		sz = tb.Add(tb.Mul(x.toInt(c), tb.IntC(slotSize(et))), tb.IntC(1))
	}
	r := x.alloc(st.heap, sz)
	if !isStruct(et) {
		name := "E." + elemKey(et)
		m := x.heapGet(st.heap, name, x.contentsSort(et))
		zv, ok := x.zeroValue(et).(*Term)
		if ok {
			st.heap.m[name] = tb.Store(m, r, tb.ConstArr(ArraySort(x.intSort(), x.sortOf(et)), zv))
		}
	} else {
		x.abstracted("make of slice-of-struct: elements not zero-initialised in the model")
	}
	return SliceV{Arr: r, Off: x.idx(0), Len: n, Cap: c}
}

func (x *FnCtx) convertValue(fr *Frame, st *State, in *ssa.Convert) Value {
	ft, tt := in.X.Type(), in.Type()
	// []byte(string), string([]byte) etc.
	_, fInt := ft.Underlying().(*types.Basic)
	_, tInt := tt.Underlying().(*types.Basic)
	if fInt && tInt && !isString(ft) && !isString(tt) {
		v := x.term(fr, st, in.X)
		r := x.convert(v, ft, tt)
		return r
	}
	if _, ok := tt.Underlying().(*types.Slice); ok {
		x.abstracted("conversion to slice")
		return x.freshOf("unk_conv", tt)
	}
	if isRefLike(ft) && isRefLike(tt) {
		if isString(tt) && !isString(ft) {
			x.abstracted("conversion to string")
			return x.freshOf("unk_conv", tt)
		}
		return x.val(fr, st, in.X)
	}
	x.abstracted(fmt.Sprintf("conversion %s -> %s", ft, tt))
	return x.freshOf("unk_conv", tt)
}

func (x *FnCtx) structEq(fr *Frame, st *State, in *ssa.BinOp) Value {
	tb := x.tb
	a, ok1 := x.val(fr, st, in.X).(StructV)
	b, ok2 := x.val(fr, st, in.Y).(StructV)
	if !ok1 || !ok2 {
		return x.freshOf("unk_structeq", in.Type())
	}
	eq := x.structEqual(a, b)
	if in.Op == token.NEQ {
		return tb.Not(eq)
	}
	return eq
}

func (x *FnCtx) structEqual(a, b StructV) *Term {
	tb := x.tb
	l := layoutOf(a.T)
	var cs []*Term
	for i := range l.Fields {
		fi := &l.Fields[i]
		va := x.loadField(a.H, a.Ref, fi)
		vb := x.loadField(b.H, b.Ref, fi)
		switch ta := va.(type) {
		case *Term:
			cs = append(cs, tb.Eq(ta, vb.(*Term)))
		case StructV:
			cs = append(cs, x.structEqual(ta, vb.(StructV)))
		default:
			cs = append(cs, tb.Fresh("unk_fieldeq", BoolSort))
		}
	}
	return tb.And(cs...)
}

// ---------- interfaces ----------

func (x *FnCtx) typeTag(t types.Type) *Term {
	k := typeKey(t)
	id, ok := x.eng.typeTags[k]
	if !ok {
		id = int64(len(x.eng.typeTags) + 1)
		x.eng.typeTags[k] = id
	}
	return x.tb.IntC(id)
}

func (x *FnCtx) typeOf(ref *Term) *Term { return x.tb.UF("typeof", IntSort, ref) }

func (x *FnCtx) makeInterface(st *State, v Value, t types.Type) Value {
	tb := x.tb
	if _, ok := t.Underlying().(*types.Interface); ok {
		return v
	}
	x.madeTypes[typeKey(t)] = t
	// the boxed concrete type implements these standard interfaces (facts used by type assertions)
	implFacts := func(ref *Term) {
		for _, sp := range x.eng.prog.AllPackages() {
			if sp.Pkg.Path() != "io" {
				continue
			}
			for _, n := range []string{"Reader", "Writer", "ByteReader", "ByteWriter"} {
				if o := sp.Pkg.Scope().Lookup(n); o != nil {
					if it, ok := o.Type().Underlying().(*types.Interface); ok && types.Implements(t, it) {
						st.pc = x.tb.And(st.pc, x.tb.UF("implements."+typeKey(o.Type()), BoolSort, x.typeOf(ref)))
					}
				}
			}
		}
	}
	if vt, ok := v.(*Term); ok {
		if _, isPtr := t.Underlying().(*types.Pointer); isPtr {
			defer implFacts(vt)
		}
	}
	switch vv := v.(type) {
	case *Term:
		if _, isPtr := t.Underlying().(*types.Pointer); isPtr {
			st.pc = tb.And(st.pc, tb.Implies(tb.Ne(vv, tb.IntC(0)), tb.Eq(x.typeOf(vv), x.typeTag(t))))
			// a typed nil pointer in an interface is non-nil in Go; modelled as the same ref (0):
			// callers comparing such interfaces with nil are outside the subset
			return vv
		}
		// boxed scalar
		r := x.alloc(st.heap, tb.IntC(1))
		name := "B." + elemKey(t)
		st.heap.m[name] = tb.Store(x.heapGet(st.heap, name, ArraySort(IntSort, vv.Sort)), r, vv)
		st.pc = tb.And(st.pc, tb.Eq(x.typeOf(r), x.typeTag(t)))
		return r
	case StructV:
		r := x.alloc(st.heap, tb.IntC(layoutOf(t).Size))
		x.copyStruct(st.heap, r, vv, t)
		st.pc = tb.And(st.pc, tb.Eq(x.typeOf(r), x.typeTag(t)))
		return r
	case FuncV:
		return x.funcRef(vv)
	}
	x.abstracted(fmt.Sprintf("MakeInterface of %T", v))
	return tb.Fresh("unk_iface", IntSort)
}

func (x *FnCtx) typeAssert(fr *Frame, st *State, in *ssa.TypeAssert) Value {
	tb := x.tb
	ref := x.term(fr, st, in.X)
	at := in.AssertedType
	var okc *Term
	var val Value
	if _, isIface := at.Underlying().(*types.Interface); isIface {
		// interface-to-interface: succeeds iff dynamic type implements it
		impl := x.implementers(at)
		var cs []*Term
		for _, t := range impl {
			cs = append(cs, tb.Eq(x.typeOf(ref), x.typeTag(t)))
		}
		if len(impl) == 0 || x.eng.openInterface(at) {
			okc = tb.UF("implements."+typeKey(at), BoolSort, x.typeOf(ref))
			okc = tb.And(okc, tb.Ne(ref, tb.IntC(0)))
			// concrete types boxed in this function, and the operand's own static interface type
			for _, k := range sortedKeys(x.madeTypes) {
				mt := x.madeTypes[k]
				if types.Implements(mt, at.Underlying().(*types.Interface)) {
					x.axiom(tb.Implies(tb.Eq(x.typeOf(ref), x.typeTag(mt)), tb.UF("implements."+typeKey(at), BoolSort, x.typeOf(ref))))
				}
			}
			if st0, ok := in.X.Type().Underlying().(*types.Interface); ok && types.Implements(in.X.Type(), at.Underlying().(*types.Interface)) {
				_ = st0
				x.axiom(tb.Implies(tb.Ne(ref, tb.IntC(0)), tb.UF("implements."+typeKey(at), BoolSort, x.typeOf(ref))))
			}
			for _, c := range cs {
				x.axiom(tb.Implies(c, tb.UF("implements."+typeKey(at), BoolSort, x.typeOf(ref))))
			}
		} else {
			okc = tb.And(tb.Ne(ref, tb.IntC(0)), tb.Or(cs...))
		}
		val = ref
	} else {
		okc = tb.And(tb.Ne(ref, tb.IntC(0)), tb.Eq(x.typeOf(ref), x.typeTag(at)))
		switch at.Underlying().(type) {
		case *types.Struct:
			val = StructV{H: st.heap.Clone(), Ref: ref, T: at}
		case *types.Pointer:
			val = ref
		default:
			name := "B." + elemKey(at)
			val = x.sel(x.heapGet(st.heap, name, ArraySort(IntSort, x.sortOf(at))), ref)
		}
	}
	if in.CommaOk {
		return TupleV{val, okc}
	}
	x.safetyOb("assert-type", fr.prefix+fr.siteOrd[in], st, okc)
	return val
}

func (x *FnCtx) implementers(iface types.Type) []types.Type {
	it := iface.Underlying().(*types.Interface)
	var out []types.Type
	for _, t := range x.eng.allNamedTypes() {
		if _, isI := t.Underlying().(*types.Interface); isI {
			continue
		}
		if types.Implements(t, it) {
			out = append(out, t)
		} else if types.Implements(types.NewPointer(t), it) {
			out = append(out, types.NewPointer(t))
		}
	}
	return out
}

// ---------- phi (only from && and ||) ----------

func (x *FnCtx) phi(fr *Frame, st *State, in *ssa.Phi) Value {
	tb := x.tb
	b := in.Block()
	// value = ite over predecessor reachability; predecessor edge states carry their pcs in phiPC
	var conds []*Term
	var vals []Value
	for i, p := range b.Preds {
		pc, ok := fr.phiPC(p, b)
		if !ok {
			continue
		}
		conds = append(conds, pc)
		vals = append(vals, x.val(fr, st, in.Edges[i]))
	}
	if len(vals) == 0 {
		return x.freshOf("unk_phi", in.Type())
	}
	_ = tb
	return x.mergeValues(conds, vals)
}

var phiPCs = map[*Frame]map[[2]int]*Term{}

func (fr *Frame) phiPC(from, to *ssa.BasicBlock) (*Term, bool) {
	m := phiPCs[fr]
	if m == nil {
		return nil, false
	}
	t, ok := m[[2]int{from.Index, to.Index}]
	return t, ok
}

func (fr *Frame) setPhiPC(from, to *ssa.BasicBlock, pc *Term) {
	m := phiPCs[fr]
	if m == nil {
		m = map[[2]int]*Term{}
		phiPCs[fr] = m
	}
	m[[2]int{from.Index, to.Index}] = pc
}

// ---------- builtins ----------

func (x *FnCtx) builtin(fr *Frame, st *State, in ssa.Value, name string, args []ssa.Value, site string) Value {
	tb := x.tb
	switch name {
	case "len", "cap":
		switch a := x.val(fr, st, args[0]).(type) {
		case SliceV:
			if name == "len" {
				return a.Len
			}
			return a.Cap
		case *Term:
			if isString(args[0].Type()) {
				n := tb.UF("gstr.len", x.intSort(), a)
				x.axiom(x.le(x.idx(0), n))
				return n
			}
			if at, ok := args[0].Type().Underlying().(*types.Array); ok {
				return x.idx(at.Len())
			}
			if pt, ok := args[0].Type().Underlying().(*types.Pointer); ok {
				if at, ok := pt.Elem().Underlying().(*types.Array); ok {
					return x.idx(at.Len())
				}
			}
		}
		x.abstracted("len/cap of " + args[0].Type().String())
		r := x.tb.Fresh("unk_len", x.intSort())
		x.axiom(x.le(x.idx(0), r))
		return r
	case "copy":
		dst, ok1 := x.val(fr, st, args[0]).(SliceV)
		if !ok1 {
			return x.freshOf("unk_copy", in.Type())
		}
		et := args[0].Type().Underlying().(*types.Slice).Elem()
		if isString(args[1].Type()) {
			x.abstracted("copy from string")
			x.havocElems(st, dst, et)
			r := tb.Fresh("copy.n", x.intSort())
			x.axiom(tb.And(x.le(x.idx(0), r), x.le(r, dst.Len)))
			return r
		}
		src, ok2 := x.val(fr, st, args[1]).(SliceV)
		if !ok2 {
			return x.freshOf("unk_copy", in.Type())
		}
		n := tb.Ite(x.lt(dst.Len, src.Len), dst.Len, src.Len)
		if isStruct(et) {
			x.abstracted("copy of slice-of-struct")
			return n
		}
		x.copyElems(st, dst, src, n, et)
		return n
	case "append":
		return x.appendOp(fr, st, in, args)
	case "min", "max":
		a, b := x.term(fr, st, args[0]), x.term(fr, st, args[1])
		lt := x.binop(token.LSS, a, b, args[0].Type(), args[1].Type(), "", nil).(*Term)
		if name == "min" {
			return tb.Ite(lt, a, b)
		}
		return tb.Ite(lt, b, a)
	case "print", "println":
		return nil
	case "ssa:wrapnilchk":
		return x.val(fr, st, args[0])
	case "close", "delete", "clear":
		x.abstracted("builtin " + name)
		return nil
	case "ssa:deferstack":
		return x.tb.IntC(0)
	}
	x.abstracted("builtin " + name)
	if in != nil && in.Type() != nil {
		if tt, ok := in.Type().(*types.Tuple); !ok || tt.Len() > 0 {
			return x.freshOf("unk_builtin", in.Type())
		}
	}
	return nil
}

// copyElems writes src[0:n] over dst[0:n] (Go copy handles overlap as memmove).
func (x *FnCtx) copyElems(st *State, dst, src SliceV, n *Term, et types.Type) {
	tb := x.tb
	name := "E." + elemKey(et)
	m := x.heapGet(st.heap, name, x.contentsSort(et))
	d := x.sel(m, dst.Arr)
	s := x.sel(m, src.Arr)
	if n.IsConst() && n.Val.IsInt64() && n.Val.Int64() <= 32 {
		// short constant-length copy: explicit element stores (all sources are read first: memmove)
		k := n.Val.Int64()
		vals := make([]*Term, k)
		for i := int64(0); i < k; i++ {
			vals[i] = x.sel(s, x.iadd(src.Off, x.idx(i)))
		}
		nd := d
		for i := int64(0); i < k; i++ {
			nd = tb.Store(nd, x.iadd(dst.Off, x.idx(i)), vals[i])
		}
		st.heap.m[name] = tb.Store(m, dst.Arr, nd)
		return
	}
	nc := tb.mk("copyarr", d.Sort, "", nil, d, dst.Off, s, src.Off, n)
	st.heap.m[name] = tb.Store(m, dst.Arr, nc)
}

func (x *FnCtx) havocElems(st *State, sl SliceV, et types.Type) {
	tb := x.tb
	name := "E." + elemKey(et)
	m := x.heapGet(st.heap, name, x.contentsSort(et))
	d := x.sel(m, sl.Arr)
	f := tb.Fresh("havoc."+elemKey(et), d.Sort)
	nc := tb.mk("copyarr", d.Sort, "", nil, d, sl.Off, f, sl.Off, sl.Len)
	st.heap.m[name] = tb.Store(m, sl.Arr, nc)
}

func (x *FnCtx) appendOp(fr *Frame, st *State, in ssa.Value, args []ssa.Value) Value {
	tb := x.tb
	et := in.Type().Underlying().(*types.Slice).Elem()
	base, ok := x.val(fr, st, args[0]).(SliceV)
	if !ok {
		return x.freshOf("unk_append", in.Type())
	}
	if isString(args[1].Type()) {
		x.abstracted("append of string")
		return x.freshOf("unk_append", in.Type())
	}
	add, ok := x.val(fr, st, args[1]).(SliceV)
	if !ok {
		return x.freshOf("unk_append", in.Type())
	}
	if isStruct(et) {
		// model: always reallocates a fresh array holding old and new elements
		newLen := x.iadd(base.Len, add.Len)
		sz := tb.Add(tb.Mul(x.toInt(newLen), tb.IntC(slotSize(et))), tb.IntC(1))
		r := x.alloc(st.heap, sz)
		flat := true
		l := layoutOf(et)
		for i := range l.Fields {
			switch l.Fields[i].T.Underlying().(type) {
			case *types.Struct, *types.Array, *types.Slice:
				flat = false
			}
		}
		if !flat {
			x.abstracted("append on slice-of-struct: element copy abstracted")
			return SliceV{Arr: r, Off: x.idx(0), Len: newLen, Cap: newLen}
		}
		// flat element type: every field map gets the old elements followed by the appended ones at the
		// new array; everything below the new array keeps its value
		slot := tb.IntC(slotSize(et))
		for i := range l.Fields {
			fi := &l.Fields[i]
			name := fieldMap(fi)
			srt := x.fieldMapSort(fi.T)
			old := x.heapGet(st.heap, name, srt)
			nw := tb.Fresh("app."+shortKey(name), srt)
			x.eng.qctr++
			k := tb.Var(fmt.Sprintf("ak?%d", x.eng.qctr), IntSort)
			below := tb.Forall([]*Term{k}, tb.Implies(tb.Lt(k, r), tb.Eq(tb.Select(nw, k), tb.Select(old, k))))
			x.eng.qctr++
			j := tb.Var(fmt.Sprintf("aj?%d", x.eng.qctr), IntSort)
			oldEl := tb.Forall([]*Term{j}, tb.Implies(tb.And(tb.Le(tb.IntC(0), j), tb.Lt(j, x.toInt(base.Len))),
				tb.Eq(tb.Select(nw, tb.Add(r, tb.Mul(j, slot))), tb.Select(old, tb.Add(base.Arr, tb.Mul(tb.Add(x.toInt(base.Off), j), slot))))))
			x.eng.qctr++
			i2 := tb.Var(fmt.Sprintf("ai?%d", x.eng.qctr), IntSort)
			newEl := tb.Forall([]*Term{i2}, tb.Implies(tb.And(tb.Le(tb.IntC(0), i2), tb.Lt(i2, x.toInt(add.Len))),
				tb.Eq(tb.Select(nw, tb.Add(r, tb.Mul(tb.Add(x.toInt(base.Len), i2), slot))), tb.Select(old, tb.Add(add.Arr, tb.Mul(tb.Add(x.toInt(add.Off), i2), slot))))))
			st.pc = tb.And(st.pc, below, oldEl, newEl)
			st.heap.m[name] = nw
		}
		return SliceV{Arr: r, Off: x.idx(0), Len: newLen, Cap: newLen}
	}
	newLen := x.iadd(base.Len, add.Len)
	fits := x.le(newLen, base.Cap)
	// in place when it fits, otherwise a fresh array: model both through ite
	name := "E." + elemKey(et)
	m := x.heapGet(st.heap, name, x.contentsSort(et))
	fresh := x.alloc(st.heap, tb.IntC(1))
	oldC := x.sel(m, base.Arr)
	addC := x.sel(m, add.Arr)
	// in-place contents
	inPlace := tb.mk("copyarr", oldC.Sort, "", nil, oldC, x.iadd(base.Off, base.Len), addC, add.Off, add.Len)
	// fresh contents: old elements at [0,len), new ones after
	zero := tb.ConstArr(oldC.Sort, x.zeroValue(et).(*Term))
	f1 := tb.mk("copyarr", oldC.Sort, "", nil, zero, x.idx(0), oldC, base.Off, base.Len)
	f2 := tb.mk("copyarr", oldC.Sort, "", nil, f1, base.Len, addC, add.Off, add.Len)
	m2 := tb.Ite(fits, tb.Store(m, base.Arr, inPlace), tb.Store(m, fresh, f2))
	st.heap.m[name] = m2
	newCap := tb.Fresh("append.cap", x.intSort())
	x.axiom(x.le(newLen, newCap))
	x.axiom(x.le(newCap, x.intConst(pow2(40), nil)))
	return SliceV{
		Arr: tb.Ite(fits, base.Arr, fresh),
		Off: tb.Ite(fits, base.Off, x.idx(0)),
		Len: newLen,
		Cap: tb.Ite(fits, base.Cap, newCap),
	}
}

var _ = big.NewInt

// zeroGhostFields: a freshly allocated object has zero ghost fields.
func (x *FnCtx) zeroGhostFields(st *State, r *Term) {
	ec := &EvalCtx{x: x}
	for _, k := range sortedKeys(x.eng.specs.Ghosts) {
		g := x.eng.specs.Ghosts[k]
		if !g.Field {
			continue
		}
		t := ec.typeByName(g.Type)
		if t == nil {
			continue
		}
		name := "H.$." + g.Name
		m := x.heapGet(st.heap, name, ArraySort(IntSort, x.sortOf(t)))
		st.heap.m[name] = x.tb.Store(m, r, x.zeroValue(t).(*Term))
	}
}

// structOffsets: offsets of the struct itself and of every struct embedded in it (by value).
func structOffsets(t types.Type) []int64 {
	out := []int64{0}
	l := layoutOf(t)
	for i := range l.Fields {
		fi := &l.Fields[i]
		switch u := fi.T.Underlying().(type) {
		case *types.Struct:
			for _, o := range structOffsets(fi.T) {
				if fi.Off+o != 0 {
					out = append(out, fi.Off+o)
				}
			}
		case *types.Array:
			if isStruct(u.Elem()) && u.Len() <= 64 {
				for k := int64(0); k < u.Len(); k++ {
					for _, o := range structOffsets(u.Elem()) {
						if v := fi.Off + k*slotSize(u.Elem()) + o; v != 0 {
							out = append(out, v)
						}
					}
				}
			}
		}
	}
	return out
}
