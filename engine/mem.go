package main

// Values, sorts per arithmetic mode, struct layout and the heap model.
//
// Heap model (see DESIGN.md 2.3): every struct object is identified by an
// Int reference; an embedded struct / array lives at ref+offset (slot
// layout), so interior pointers are linear arithmetic. Scalar fields live
// in one SMT array per (struct type, field): H.<T>.<f> : Int -> sort.
// Slice-typed fields use four such arrays. Array and slice contents live
// in E.<elem> : Int -> (Idx -> sort), keyed by the array reference.
// Pointers to scalars that cross calls live in C.<elem> : Int -> sort.

import (
	"fmt"
	"go/types"
	"math/big"
	"os"
	"runtime/debug"
	"sort"
	"strings"

	"golang.org/x/tools/go/ssa"
)

type Value interface{}

type SliceV struct {
	Arr, Off, Len, Cap *Term
}

// StructV is a struct value: the fields of the object at Ref in heap snapshot H.
type StructV struct {
	H   *Heap
	Ref *Term
	T   types.Type
}

// StructArrV is an array of structs living at Ref (elements at Ref + i*slotSize).
type StructArrV struct {
	H   *Heap
	Ref *Term
	T   types.Type // array type
}

type TupleV []Value

type LocKind int

const (
	LCell LocKind = iota
	LField
	LElem
	LGlobal
)

// LocV is a pointer to a non-struct, non-array location.
type LocV struct {
	Kind  LocKind
	Cell  *ssa.Alloc
	Frame *Frame
	Map   string // LField: heap map base name
	Ref   *Term  // LField: object ref; LElem: array ref
	Idx   *Term  // LElem
	T     types.Type
	G     *ssa.Global
}

type FuncV struct {
	Fn       *ssa.Function
	Bindings []Value
}

type UnknownV struct{ Why string }

type Heap struct {
	m    map[string]*Term
	A    *Term  // allocation counter
	base string // suffix of the variables standing for maps not touched since the last total havoc
}

func (h *Heap) baseSuffix() string {
	if h.base == "" {
		return "$0"
	}
	return h.base
}

func (h *Heap) Clone() *Heap {
	n := &Heap{m: make(map[string]*Term, len(h.m)), A: h.A, base: h.base}
	for k, v := range h.m {
		n.m[k] = v
	}
	return n
}

// ---------- sorts ----------

func (x *FnCtx) intSort() *Sort {
	if x.bv {
		return BVSort(64)
	}
	return IntSort
}

func basicWidth(b *types.Basic) (w int, signed bool, ok bool) {
	switch b.Kind() {
	case types.Int, types.Int64, types.UntypedInt, types.UntypedRune:
		return 64, true, true
	case types.Int8:
		return 8, true, true
	case types.Int16:
		return 16, true, true
	case types.Int32:
		return 32, true, true
	case types.Uint, types.Uint64, types.Uintptr:
		return 64, false, true
	case types.Uint8:
		return 8, false, true
	case types.Uint16:
		return 16, false, true
	case types.Uint32:
		return 32, false, true
	}
	return 0, false, false
}

func intInfo(t types.Type) (w int, signed bool, ok bool) {
	if t == nil {
		return 0, false, false
	}
	b, isB := t.Underlying().(*types.Basic)
	if !isB {
		return 0, false, false
	}
	return basicWidth(b)
}

func isBool(t types.Type) bool {
	b, ok := t.Underlying().(*types.Basic)
	return ok && b.Info()&types.IsBoolean != 0
}

func isString(t types.Type) bool {
	b, ok := t.Underlying().(*types.Basic)
	return ok && b.Info()&types.IsString != 0
}

// isRefLike: represented by an Int reference term.
func isRefLike(t types.Type) bool {
	switch u := t.Underlying().(type) {
	case *types.Pointer, *types.Interface, *types.Map, *types.Chan, *types.Signature:
		return true
	case *types.Basic:
		return u.Kind() == types.UnsafePointer || u.Info()&types.IsString != 0 || u.Kind() == types.UntypedNil ||
			u.Info()&types.IsFloat != 0 || u.Info()&types.IsComplex != 0
	}
	return false
}

func isStruct(t types.Type) bool {
	_, ok := t.Underlying().(*types.Struct)
	return ok
}

func isScalar(t types.Type) bool {
	if isBool(t) || isRefLike(t) {
		return true
	}
	_, _, ok := intInfo(t)
	return ok
}

func (x *FnCtx) sortOf(t types.Type) *Sort {
	if isBool(t) {
		return BoolSort
	}
	if w, _, ok := intInfo(t); ok {
		if x.bv {
			return BVSort(w)
		}
		return IntSort
	}
	if isRefLike(t) {
		return IntSort
	}
	if a, ok := t.Underlying().(*types.Array); ok {
		return ArraySort(x.intSort(), x.sortOf(a.Elem()))
	}
	if isStruct(t) {
		return IntSort // arrays of structs hold no contents; structs addressed by ref
	}
	if _, ok := t.Underlying().(*types.Slice); ok {
		panic("sortOf slice")
	}
	if _, ok := t.Underlying().(*types.Tuple); ok {
		panic("sortOf tuple")
	}
	return IntSort
}

// intConst builds a constant of Go integer type t (or the mode's int when t is nil).
func (x *FnCtx) intConst(v *big.Int, t types.Type) *Term {
	if x.bv {
		w := 64
		if ww, _, ok := intInfo(t); ok {
			w = ww
		}
		return x.tb.BVC(v, w)
	}
	return x.tb.IntB(v)
}

func (x *FnCtx) idx(v int64) *Term { return x.intConst(big.NewInt(v), nil) }

// ---------- layout ----------

type fieldInfo struct {
	Name   string
	Off    int64
	T      types.Type
	Index  int
	Struct string // qualified struct name owning the field
}

type layoutInfo struct {
	Fields []fieldInfo
	Size   int64
	Name   string
}

var layoutCache = map[string]*layoutInfo{}

func typeKey(t types.Type) string {
	return types.TypeString(t, func(p *types.Package) string { return p.Path() })
}

func shortTypeName(t types.Type) string {
	if p, ok := t.(*types.Pointer); ok {
		t = p.Elem()
	}
	if n, ok := t.(*types.Named); ok {
		o := n.Obj()
		if o.Pkg() != nil {
			return o.Pkg().Path() + "." + o.Name()
		}
		return o.Name()
	}
	return typeKey(t)
}

func slotSize(t types.Type) int64 {
	switch u := t.Underlying().(type) {
	case *types.Struct:
		return layoutOf(t).Size
	case *types.Array:
		if isStruct(u.Elem()) {
			return u.Len() * slotSize(u.Elem())
		}
		return 1
	}
	return 1
}

func layoutOf(t types.Type) *layoutInfo {
	k := typeKey(t)
	if l, ok := layoutCache[k]; ok {
		return l
	}
	st := t.Underlying().(*types.Struct)
	l := &layoutInfo{Name: shortTypeName(t)}
	layoutCache[k] = l
	off := int64(0)
	for i := 0; i < st.NumFields(); i++ {
		f := st.Field(i)
		l.Fields = append(l.Fields, fieldInfo{Name: f.Name(), Off: off, T: f.Type(), Index: i, Struct: l.Name})
		off += slotSize(f.Type())
	}
	if off == 0 {
		off = 1
	}
	l.Size = off
	for i := range l.Fields {
		fieldByMap[fieldMap(&l.Fields[i])] = &l.Fields[i]
	}
	return l
}

func (l *layoutInfo) field(name string) *fieldInfo {
	for i := range l.Fields {
		if l.Fields[i].Name == name {
			return &l.Fields[i]
		}
	}
	return nil
}

func fieldMap(fi *fieldInfo) string { return "H." + fi.Struct + "." + fi.Name }

// elemKey names the contents map for an element type.
func elemKey(t types.Type) string {
	if isBool(t) {
		return "bool"
	}
	if w, s, ok := intInfo(t); ok {
		if s {
			return fmt.Sprintf("i%d", w)
		}
		return fmt.Sprintf("u%d", w)
	}
	if isStruct(t) {
		return "struct"
	}
	if _, ok := t.Underlying().(*types.Slice); ok {
		return "slice"
	}
	return "ref"
}

// ---------- heap access ----------

func (x *FnCtx) heapGet(h *Heap, name string, s *Sort) *Term {
	if t, ok := h.m[name]; ok {
		return t
	}
	// the entry heap is shared lazily: same name => same variable
	t := x.tb.Var(name+h.baseSuffix(), s)
	h.m[name] = t
	x.heapSorts[name] = s
	return t
}

func (x *FnCtx) fieldMapSort(t types.Type) *Sort { return ArraySort(IntSort, x.sortOf(t)) }

func (x *FnCtx) contentsSort(elem types.Type) *Sort {
	return ArraySort(IntSort, ArraySort(x.intSort(), x.sortOf(elem)))
}

func (x *FnCtx) refAdd(r *Term, off int64) *Term {
	return x.tb.Add(r, x.tb.IntC(off))
}

// loadField loads field fi of the struct object at ref.
func (x *FnCtx) loadField(h *Heap, ref *Term, fi *fieldInfo) Value {
	ft := fi.T
	switch u := ft.Underlying().(type) {
	case *types.Struct:
		return StructV{H: h, Ref: x.refAdd(ref, fi.Off), T: ft}
	case *types.Array:
		if isStruct(u.Elem()) {
			return StructArrV{H: h, Ref: x.refAdd(ref, fi.Off), T: ft}
		}
		return x.tb.Select(x.heapGet(h, "E."+elemKey(u.Elem()), x.contentsSort(u.Elem())), x.refAdd(ref, fi.Off))
	case *types.Slice:
		base := fieldMap(fi)
		is := x.intSort()
		return SliceV{
			Arr: x.tb.Select(x.heapGet(h, base+"#arr", ArraySort(IntSort, IntSort)), ref),
			Off: x.tb.Select(x.heapGet(h, base+"#off", ArraySort(IntSort, is)), ref),
			Len: x.tb.Select(x.heapGet(h, base+"#len", ArraySort(IntSort, is)), ref),
			Cap: x.tb.Select(x.heapGet(h, base+"#cap", ArraySort(IntSort, is)), ref),
		}
	}
	return x.tb.Select(x.heapGet(h, fieldMap(fi), x.fieldMapSort(ft)), ref)
}

func (x *FnCtx) storeField(h *Heap, ref *Term, fi *fieldInfo, v Value) {
	ft := fi.T
	switch u := ft.Underlying().(type) {
	case *types.Struct:
		x.copyStruct(h, x.refAdd(ref, fi.Off), v, ft)
		return
	case *types.Array:
		if isStruct(u.Elem()) {
			x.abstracted("store of array-of-struct value")
			return
		}
		name := "E." + elemKey(u.Elem())
		m := x.heapGet(h, name, x.contentsSort(u.Elem()))
		t, ok := v.(*Term)
		if !ok {
			t = x.tb.Fresh("unk_arr", x.sortOf(ft))
		}
		h.m[name] = x.tb.Store(m, x.refAdd(ref, fi.Off), t)
		return
	case *types.Slice:
		sv, ok := v.(SliceV)
		if !ok {
			sv = x.freshSlice("unk_slice")
		}
		base := fieldMap(fi)
		is := x.intSort()
		h.m[base+"#arr"] = x.tb.Store(x.heapGet(h, base+"#arr", ArraySort(IntSort, IntSort)), ref, sv.Arr)
		h.m[base+"#off"] = x.tb.Store(x.heapGet(h, base+"#off", ArraySort(IntSort, is)), ref, sv.Off)
		h.m[base+"#len"] = x.tb.Store(x.heapGet(h, base+"#len", ArraySort(IntSort, is)), ref, sv.Len)
		h.m[base+"#cap"] = x.tb.Store(x.heapGet(h, base+"#cap", ArraySort(IntSort, is)), ref, sv.Cap)
		return
	}
	t, ok := v.(*Term)
	if !ok {
		if os.Getenv("GOVC_DEBUG") != "" {
			fmt.Fprintf(os.Stderr, "storeField: non-term value %T for field %s.%s\n", v, fi.Struct, fi.Name)
			if v == nil && fi.Name == "ctype" {
				debug.PrintStack()
			}
		}
		t = x.tb.Fresh("unk_field", x.sortOf(ft))
	}
	name := fieldMap(fi)
	h.m[name] = x.tb.Store(x.heapGet(h, name, x.fieldMapSort(ft)), ref, t)
}

// copyStruct stores struct value v (StructV) into the object at dst.
func (x *FnCtx) copyStruct(h *Heap, dst *Term, v Value, t types.Type) {
	if u, isU := v.(UnknownV); isU && u.Why == "const struct" {
		// the zero value of the struct type
		x.zeroStruct(h, dst, t)
		return
	}
	sv, ok := v.(StructV)
	if !ok && os.Getenv("GOVC_DEBUG") != "" {
		fmt.Fprintf(os.Stderr, "copyStruct: value is %T (%v) for %s\n", v, v, t)
	}
	l := layoutOf(t)
	for i := range l.Fields {
		fi := &l.Fields[i]
		if a, isArr := fi.T.Underlying().(*types.Array); isArr && isStruct(a.Elem()) {
			es := slotSize(a.Elem())
			for k := int64(0); k < a.Len(); k++ {
				off := fi.Off + k*es
				if ok {
					x.copyStruct(h, x.refAdd(dst, off), StructV{H: sv.H, Ref: x.refAdd(sv.Ref, off), T: a.Elem()}, a.Elem())
				} else {
					x.copyStruct(h, x.refAdd(dst, off), nil, a.Elem())
				}
			}
			continue
		}
		var fv Value
		if ok {
			fv = x.loadField(sv.H, sv.Ref, fi)
		}
		x.storeField(h, dst, fi, fv)
	}
}

// zeroStruct zero-initialises the object at ref.
func (x *FnCtx) zeroStruct(h *Heap, ref *Term, t types.Type) {
	l := layoutOf(t)
	for i := range l.Fields {
		fi := &l.Fields[i]
		switch u := fi.T.Underlying().(type) {
		case *types.Struct:
			x.zeroStruct(h, x.refAdd(ref, fi.Off), fi.T)
		case *types.Array:
			if isStruct(u.Elem()) {
				es := slotSize(u.Elem())
				for k := int64(0); k < u.Len(); k++ {
					x.zeroStruct(h, x.refAdd(ref, fi.Off+k*es), u.Elem())
				}
			} else {
				x.storeField(h, ref, fi, x.zeroValue(fi.T))
			}
		default:
			x.storeField(h, ref, fi, x.zeroValue(fi.T))
		}
	}
}

func (x *FnCtx) zeroValue(t types.Type) Value {
	switch u := t.Underlying().(type) {
	case *types.Slice:
		z := x.idx(0)
		return SliceV{Arr: x.tb.IntC(0), Off: z, Len: z, Cap: z}
	case *types.Array:
		if isStruct(u.Elem()) {
			return UnknownV{"zero array-of-struct"}
		}
		return x.tb.ConstArr(x.sortOf(t), x.zeroValue(u.Elem()).(*Term))
	case *types.Struct:
		return UnknownV{"zero struct value"}
	}
	if isBool(t) {
		return x.tb.False()
	}
	if _, _, ok := intInfo(t); ok {
		return x.intConst(big.NewInt(0), t)
	}
	return x.tb.IntC(0)
}

func (x *FnCtx) freshSlice(name string) SliceV {
	is := x.intSort()
	return SliceV{Arr: x.tb.Fresh(name+".arr", IntSort), Off: x.tb.Fresh(name+".off", is),
		Len: x.tb.Fresh(name+".len", is), Cap: x.tb.Fresh(name+".cap", is)}
}

// pointeeExtent: number of slots occupied by the object a pointer of type t points to (1 if unknown).
func pointeeExtent(t types.Type) int64 {
	pt, ok := t.Underlying().(*types.Pointer)
	if !ok {
		return 1
	}
	switch pt.Elem().Underlying().(type) {
	case *types.Struct, *types.Array:
		return slotSize(pt.Elem())
	}
	return 1
}

// alloc reserves n slots and returns the new reference.
func (x *FnCtx) alloc(h *Heap, n *Term) *Term {
	r := h.A
	h.A = x.tb.Add(h.A, n)
	return r
}

// ---------- type invariants (range facts of machine types) ----------

func newBig(v int64) *big.Int { return big.NewInt(v) }

func pow2(n int) *big.Int { return new(big.Int).Lsh(big.NewInt(1), uint(n)) }

func (x *FnCtx) intRange(t types.Type) (lo, hi *big.Int, ok bool) {
	w, s, ok := intInfo(t)
	if !ok {
		return nil, nil, false
	}
	if s {
		return new(big.Int).Neg(pow2(w - 1)), new(big.Int).Sub(pow2(w-1), big.NewInt(1)), true
	}
	return big.NewInt(0), new(big.Int).Sub(pow2(w), big.NewInt(1)), true
}

// typeInv returns the facts implied by the machine representation of v:T.
func (x *FnCtx) typeInv(v Value, t types.Type, h *Heap) *Term {
	tb := x.tb
	switch vv := v.(type) {
	case *Term:
		if _, _, ok := intInfo(t); ok {
			if x.bv {
				return tb.True()
			}
			lo, hi, _ := x.intRange(t)
			return tb.And(tb.Le(tb.IntB(lo), vv), tb.Le(vv, tb.IntB(hi)))
		}
		if isRefLike(t) && vv.Sort == IntSort {
			c := tb.Le(tb.IntC(0), vv)
			if h != nil {
				c = tb.And(c, tb.Lt(vv, h.A))
			}
			return c
		}
	case SliceV:
		z := x.idx(0)
		c := tb.And(x.le(z, vv.Off), x.le(z, vv.Len), x.le(vv.Len, vv.Cap), tb.Le(tb.IntC(0), vv.Arr),
			tb.Implies(tb.Eq(vv.Arr, tb.IntC(0)), tb.Eq(vv.Cap, z)))
		if !x.bv {
			c = tb.And(c, tb.Le(tb.Add(vv.Off, vv.Cap), tb.IntB(pow2(62))), tb.Le(vv.Len, tb.IntB(pow2(62))), tb.Le(vv.Cap, tb.IntB(pow2(62))), tb.Le(vv.Off, tb.IntB(pow2(62))))
		} else {
			c = tb.And(c, x.le(vv.Cap, x.intConst(pow2(40), nil)), x.le(vv.Off, x.intConst(pow2(40), nil)))
		}
		if h != nil {
			c = tb.And(c, tb.Lt(vv.Arr, h.A))
		}
		return c
	}
	return tb.True()
}

// signed <= / < on the mode's int sort
func (x *FnCtx) le(a, b *Term) *Term {
	if x.bv {
		return x.tb.BVCmp("bvsle", a, b)
	}
	return x.tb.Le(a, b)
}
func (x *FnCtx) lt(a, b *Term) *Term {
	if x.bv {
		return x.tb.BVCmp("bvslt", a, b)
	}
	return x.tb.Lt(a, b)
}
func (x *FnCtx) iadd(a, b *Term) *Term {
	if x.bv {
		return x.tb.BVBin("bvadd", a, b)
	}
	return x.tb.Add(a, b)
}
func (x *FnCtx) isub(a, b *Term) *Term {
	if x.bv {
		return x.tb.BVBin("bvsub", a, b)
	}
	return x.tb.Sub(a, b)
}

// ---------- names for evidence ----------

func sortedKeys[V any](m map[string]V) []string {
	var ks []string
	for k := range m {
		ks = append(ks, k)
	}
	sort.Strings(ks)
	return ks
}

func funcKey(f *ssa.Function) string {
	if f == nil {
		return "<nil>"
	}
	pkg := ""
	if f.Pkg != nil {
		pkg = f.Pkg.Pkg.Path()
	} else if f.Object() != nil && f.Object().Pkg() != nil {
		pkg = f.Object().Pkg().Path()
	}
	name := f.Name()
	if recv := f.Signature.Recv(); recv != nil {
		rt := recv.Type()
		if p, ok := rt.(*types.Pointer); ok {
			rt = p.Elem()
		}
		if n, ok := rt.(*types.Named); ok {
			if n.Obj().Pkg() != nil {
				pkg = n.Obj().Pkg().Path()
			}
			return pkg + "." + n.Obj().Name() + "." + name
		}
	}
	if f.Parent() != nil {
		return funcKey(f.Parent()) + "$" + strings.TrimPrefix(name, f.Parent().Name()+"$")
	}
	return pkg + "." + name
}
