package main

// Quantifier support done by the generator itself: skolemisation of the
// negated goal and heuristic instantiation of universally quantified
// hypotheses at the ground array-index terms of the query. The quantified
// formulas stay in the query; instances are only added (sound).

import (
	"fmt"
	"math/big"
	"os"
	"sort"
	"strings"
)

// rebuild constructs op(args) through the simplifying builders where they exist.
func (tb *TB) rebuild(t *Term, args []*Term) *Term {
	switch t.Op {
	case "and":
		return tb.And(args...)
	case "or":
		return tb.Or(args...)
	case "not":
		return tb.Not(args[0])
	case "ite":
		return tb.Ite(args[0], args[1], args[2])
	case "=":
		return tb.Eq(args[0], args[1])
	case "select":
		return tb.Select(args[0], args[1])
	case "store":
		return tb.Store(args[0], args[1], args[2])
	case "+":
		if len(args) == 2 {
			return tb.Add(args[0], args[1])
		}
	case "-":
		if len(args) == 2 {
			return tb.Sub(args[0], args[1])
		}
	case "*":
		return tb.Mul(args[0], args[1])
	case "div":
		return tb.Div(args[0], args[1])
	case "mod":
		return tb.Mod(args[0], args[1])
	case "<":
		return tb.Lt(args[0], args[1])
	case "<=":
		return tb.Le(args[0], args[1])
	case "forall":
		return tb.Forall(args[1:], args[0])
	case "exists":
		return tb.Exists(args[1:], args[0])
	}
	if strings.HasPrefix(t.Op, "bv") && len(args) == 2 {
		switch t.Op {
		case "bvult", "bvule", "bvslt", "bvsle":
			return tb.BVCmp(t.Op, args[0], args[1])
		default:
			return tb.BVBin(t.Op, args[0], args[1])
		}
	}
	return tb.mk(t.Op, t.Sort, t.Name, t.Val, args...)
}

func (tb *TB) subst(t *Term, m map[int]*Term, memo map[int]*Term) *Term {
	if r, ok := memo[t.ID]; ok {
		return r
	}
	if r, ok := m[t.ID]; ok {
		memo[t.ID] = r
		return r
	}
	if len(t.Args) == 0 {
		return t
	}
	changed := false
	args := make([]*Term, len(t.Args))
	for i, a := range t.Args {
		args[i] = tb.subst(a, m, memo)
		if args[i] != a {
			changed = true
		}
	}
	r := t
	if changed {
		r = tb.rebuild(t, args)
	}
	memo[t.ID] = r
	return r
}

// negSk returns a formula equisatisfiable with (not t), with universally
// quantified parts of t replaced by fresh constants.
func (tb *TB) negSk(t *Term) *Term {
	switch t.Op {
	case "forall":
		m := map[int]*Term{}
		for _, v := range t.Args[1:] {
			m[v.ID] = tb.Fresh("sk."+strings.SplitN(v.Name, "?", 2)[0], v.Sort)
		}
		return tb.negSk(tb.subst(t.Args[0], m, map[int]*Term{}))
	case "and":
		var out []*Term
		for _, a := range t.Args {
			out = append(out, tb.negSk(a))
		}
		return tb.Or(out...)
	case "or":
		var out []*Term
		for _, a := range t.Args {
			out = append(out, tb.negSk(a))
		}
		return tb.And(out...)
	case "not":
		return tb.posSk(t.Args[0])
	}
	return tb.Not(t)
}

// posSk: t with existentials in positive position skolemised.
func (tb *TB) posSk(t *Term) *Term {
	switch t.Op {
	case "exists":
		m := map[int]*Term{}
		for _, v := range t.Args[1:] {
			m[v.ID] = tb.Fresh("sk."+strings.SplitN(v.Name, "?", 2)[0], v.Sort)
		}
		return tb.posSk(tb.subst(t.Args[0], m, map[int]*Term{}))
	case "and":
		var out []*Term
		for _, a := range t.Args {
			out = append(out, tb.posSk(a))
		}
		return tb.And(out...)
	case "or":
		var out []*Term
		for _, a := range t.Args {
			out = append(out, tb.posSk(a))
		}
		return tb.Or(out...)
	case "not":
		return tb.negSk(t.Args[0])
	}
	return t
}

// instantiate adds instances of top-level universally quantified conjuncts.
func (tb *TB) instantiate(asserts []*Term, rounds int) []*Term {
	out := append([]*Term{}, asserts...)
	done := map[string]bool{}
	for r := 0; r < rounds; r++ {
		// ground index terms
		ground := map[int]*Term{}
		tb.groundByRoot = map[string][]*Term{}
		var order []*Term
		seen := map[int]bool{}
		var walk func(t *Term, under bool)
		walk = func(t *Term, under bool) {
			if t.Op == "forall" || t.Op == "exists" {
				return // only ground parts
			}
			if seen[t.ID] {
				return
			}
			seen[t.ID] = true
			if t.Op == "select" && t.Args[1].Sort.Kind != SArray {
				if !heapLevel(t.Args[0]) {
					if _, ok := ground[t.Args[1].ID]; !ok {
						ground[t.Args[1].ID] = t.Args[1]
						order = append(order, t.Args[1])
					}
				}
				rt := rootKey(t.Args[0])
				tb.groundByRoot[rt] = appendUnique(tb.groundByRoot[rt], t.Args[1])
			}
			if strings.HasPrefix(t.Op, "uf:") {
				for _, a := range t.Args {
					if a.Sort.Kind == SInt || a.Sort.Kind == SBV {
						if _, ok := ground[a.ID]; !ok {
							ground[a.ID] = a
							order = append(order, a)
						}
					}
				}
			}
			for _, a := range t.Args {
				walk(a, under)
			}
		}
		for _, a := range out {
			walk(a, false)
		}
		// strengthen every positive-polarity forall with its instances (equivalence preserving)
		added := 0
		instOf := func(q *Term) []*Term {
			vars := q.Args[1:]
			if len(vars) > 2 {
				return nil
			}
			cands := map[int][]*Term{}
			for _, v := range vars {
				cs := tb.candidates(q.Args[0], v, order)
				if len(cs) > 24 {
					cs = cs[:24]
				}
				cands[v.ID] = cs
			}
			combos := []map[int]*Term{{}}
			for _, v := range vars {
				var next []map[int]*Term
				for _, c := range combos {
					for _, g := range cands[v.ID] {
						n := map[int]*Term{}
						for k, x := range c {
							n[k] = x
						}
						n[v.ID] = g
						next = append(next, n)
					}
				}
				combos = next
				if len(combos) > 64 {
					combos = combos[:64]
				}
			}
			if os.Getenv("GOVC_DEBUG") != "" {
				for _, v := range vars {
					fmt.Fprintf(os.Stderr, "instantiate: forall %d var %s: %d candidates, %d combos\n", q.ID, v.Name, len(cands[v.ID]), len(combos))
				}
			}
			var insts []*Term
			for _, m := range combos {
				if len(m) != len(vars) {
					continue
				}
				key := fmt.Sprint(q.ID)
				for _, v := range vars {
					key += fmt.Sprintf(",%d", m[v.ID].ID)
				}
				if done[key] || added > 300 {
					continue
				}
				done[key] = true
				insts = append(insts, tb.subst(q.Args[0], m, map[int]*Term{}))
				added++
			}
			return insts
		}
		memo := map[int]*Term{}
		var instPos func(t *Term) *Term
		// instOnly: conjunction of instances of the foralls that are top-level conjuncts of t
		var instOnly func(t *Term) *Term
		instOnly = func(t *Term) *Term {
			switch t.Op {
			case "forall":
				return tb.And(instOf(t)...)
			case "and":
				var cs []*Term
				for _, a := range t.Args {
					cs = append(cs, instOnly(a))
				}
				return tb.And(cs...)
			}
			return tb.True()
		}
		instPos = func(t *Term) *Term {
			if t.Sort.Kind != SBool {
				return t
			}
			if r, ok := memo[t.ID]; ok {
				return r
			}
			r := t
			switch t.Op {
			case "forall":
				r = tb.And(append([]*Term{t}, instOf(t)...)...)
			case "and", "or":
				args := make([]*Term, len(t.Args))
				ch := false
				for i, a := range t.Args {
					args[i] = instPos(a)
					if args[i] != a {
						ch = true
					}
				}
				if ch {
					if t.Op == "and" {
						r = tb.And(args...)
					} else {
						r = tb.Or(args...)
					}
				}
			case "=":
				if t.Args[0].Sort.Kind == SBool {
					a, b := t.Args[0], t.Args[1]
					ia, ib := instOnly(a), instOnly(b)
					if !ia.IsTrue() || !ib.IsTrue() {
						r = tb.And(t, tb.Or(tb.Not(a), ib), tb.Or(tb.Not(b), ia))
					}
				}
			case "ite":
				a, b := instPos(t.Args[1]), instPos(t.Args[2])
				if a != t.Args[1] || b != t.Args[2] {
					r = tb.Ite(t.Args[0], a, b)
				}
			}
			memo[t.ID] = r
			return r
		}
		for i := range out {
			out[i] = instPos(out[i])
		}
		if added == 0 {
			break
		}
	}
	return out
}

// candidates: ground terms g such that some select index (or uf argument) in body,
// of the shape v, X+v or v+X, equals a ground index term when v := g.
func (tb *TB) candidates(body *Term, v *Term, ground []*Term) []*Term {
	var pats []*Term
	patRoot := map[int]string{}
	seen := map[int]bool{}
	var walk func(t *Term)
	walk = func(t *Term) {
		if seen[t.ID] {
			return
		}
		seen[t.ID] = true
		if t.Op == "select" && t.Args[1].Sort == v.Sort && mentions(t.Args[1], v) && (!heapLevel(t.Args[0]) || t.Args[1] != v || contentsMap(t.Args[0])) {
			pats = append(pats, t.Args[1])
			patRoot[len(pats)-1] = rootKey(t.Args[0])
		}
		if strings.HasPrefix(t.Op, "uf:") {
			for _, a := range t.Args {
				if a.Sort == v.Sort && mentions(a, v) {
					pats = append(pats, a)
				}
			}
		}
		for _, a := range t.Args {
			walk(a)
		}
	}
	walk(body)
	var out []*Term
	have := map[int]bool{}
	add := func(g *Term) {
		if !have[g.ID] && g.Sort == v.Sort && !mentionsBound(g) {
			have[g.ID] = true
			out = append(out, g)
		}
	}
	for pi, p := range pats {
		gs := ground
		if rt, ok := patRoot[pi]; ok {
			gs = tb.groundByRoot[rt]
		}
		for _, g := range gs {
			if g.Sort != v.Sort {
				continue
			}
			if p == v {
				add(g)
				continue
			}
			// p = X + v  (either order), X free of v
			var xpart *Term
			if (p.Op == "+" || p.Op == "bvadd") && len(p.Args) == 2 {
				if p.Args[1] == v && !mentions(p.Args[0], v) {
					xpart = p.Args[0]
				} else if p.Args[0] == v && !mentions(p.Args[1], v) {
					xpart = p.Args[1]
				}
			}
			if xpart == nil {
				continue
			}
			if (g.Op == "+" || g.Op == "bvadd") && len(g.Args) == 2 {
				if g.Args[0] == xpart {
					add(g.Args[1])
					continue
				}
				if g.Args[1] == xpart {
					add(g.Args[0])
					continue
				}
			}
			if g == xpart {
				if v.Sort.Kind == SInt {
					add(tb.IntC(0))
				} else {
					add(tb.BVC(bigZero, v.Sort.Width))
				}
				continue
			}
			if v.Sort.Kind == SInt {
				if d := tb.linDiff(g, xpart); d != nil {
					add(d)
				}
			}
		}
		// general linear pattern a*v + R = g  =>  v = (g - R) / a
		if v.Sort.Kind == SInt && p != v {
			for _, g := range gs {
				if g.Sort != v.Sort {
					continue
				}
				if d := tb.linSolve(p, v, g); d != nil {
					add(d)
				}
			}
		}
	}
	// general candidates last: g - X for constant-offset differences
	for _, p := range pats {
		if (p.Op != "+") || len(p.Args) != 2 {
			continue
		}
		var xpart *Term
		if p.Args[1] == v && !mentions(p.Args[0], v) {
			xpart = p.Args[0]
		} else if p.Args[0] == v && !mentions(p.Args[1], v) {
			xpart = p.Args[1]
		}
		if xpart == nil {
			continue
		}
		for _, g := range ground {
			if g.Sort == v.Sort && v.Sort.Kind == SInt && mentions(g, xpart) && g != xpart {
				add(tb.Sub(g, xpart))
			}
		}
	}
	return out
}

func mentions(t, v *Term) bool {
	if t == v {
		return true
	}
	for _, a := range t.Args {
		if mentions(a, v) {
			return true
		}
	}
	return false
}

// heapLevel: the array is a heap map keyed by object references (not element contents).
func heapLevel(a *Term) bool {
	for {
		switch a.Op {
		case "store", "copyarr":
			a = a.Args[0]
			continue
		case "ite":
			a = a.Args[1]
			continue
		case "var":
			n := a.Name
			return strings.HasPrefix(n, "H.") || strings.HasPrefix(n, "C.") || strings.HasPrefix(n, "B.") || strings.HasPrefix(n, "E.") || strings.HasPrefix(n, "hv.H.") || strings.HasPrefix(n, "hv.C.") || strings.HasPrefix(n, "hv.E.")
		}
		return false
	}
}

func arrayRoot(a *Term) *Term {
	for {
		switch a.Op {
		case "store", "copyarr":
			a = a.Args[0]
			continue
		case "ite":
			a = a.Args[1]
			continue
		}
		return a
	}
}

func appendUnique(l []*Term, t *Term) []*Term {
	for _, x := range l {
		if x == t {
			return l
		}
	}
	return append(l, t)
}

// linear normal form over Int terms: sum of coeff*atom + const
type linForm struct {
	c     *big.Int
	atoms map[int]*big.Int
	terms map[int]*Term
}

func (tb *TB) lin(t *Term, scale *big.Int, out *linForm) {
	switch {
	case t.IsConst() && t.Sort.Kind == SInt:
		out.c.Add(out.c, new(big.Int).Mul(scale, t.Val))
		return
	case t.Op == "+":
		for _, a := range t.Args {
			tb.lin(a, scale, out)
		}
		return
	case t.Op == "-" && len(t.Args) == 2:
		tb.lin(t.Args[0], scale, out)
		tb.lin(t.Args[1], new(big.Int).Neg(scale), out)
		return
	case t.Op == "*" && len(t.Args) == 2 && t.Args[1].IsConst():
		tb.lin(t.Args[0], new(big.Int).Mul(scale, t.Args[1].Val), out)
		return
	}
	if old, ok := out.atoms[t.ID]; ok {
		out.atoms[t.ID] = new(big.Int).Add(old, scale)
	} else {
		out.atoms[t.ID] = new(big.Int).Set(scale)
		out.terms[t.ID] = t
	}
}

// linDiff returns a term for g - x when it simplifies to at most two atoms.
func (tb *TB) linDiff(g, x *Term) *Term {
	lf := &linForm{c: new(big.Int), atoms: map[int]*big.Int{}, terms: map[int]*Term{}}
	tb.lin(g, big.NewInt(1), lf)
	tb.lin(x, big.NewInt(-1), lf)
	var ids []int
	for id, c := range lf.atoms {
		if c.Sign() != 0 {
			ids = append(ids, id)
		}
	}
	if len(ids) > 2 {
		return nil
	}
	sort.Ints(ids)
	r := tb.IntB(lf.c)
	for _, id := range ids {
		r = tb.Add(tb.Mul(lf.terms[id], tb.IntB(lf.atoms[id])), r)
	}
	return r
}

// linSolve solves p(v) = g for v when p is linear in v and the solution is an
// integer-linear term with at most three atoms.
func (tb *TB) linSolve(p, v, g *Term) *Term {
	lf := &linForm{c: new(big.Int), atoms: map[int]*big.Int{}, terms: map[int]*Term{}}
	tb.lin(g, big.NewInt(1), lf)
	tb.lin(p, big.NewInt(-1), lf)
	a, ok := lf.atoms[v.ID]
	if !ok || a.Sign() == 0 {
		return nil
	}
	// g - p = a'*v + rest  with a' = -coef(v in p); solution v = rest / coef
	coef := new(big.Int).Neg(a)
	delete(lf.atoms, v.ID)
	for _, t := range lf.terms {
		if t != v && mentions(t, v) {
			return nil // non-linear occurrence
		}
	}
	var ids []int
	for id, c := range lf.atoms {
		if c.Sign() == 0 {
			continue
		}
		if new(big.Int).Mod(c, coef).Sign() != 0 {
			return nil
		}
		ids = append(ids, id)
	}
	if new(big.Int).Mod(lf.c, coef).Sign() != 0 || len(ids) > 3 {
		return nil
	}
	sort.Ints(ids)
	r := tb.IntB(new(big.Int).Quo(lf.c, coef))
	for _, id := range ids {
		r = tb.Add(tb.Mul(lf.terms[id], tb.IntB(new(big.Int).Quo(lf.atoms[id], coef))), r)
	}
	return r
}

// contentsMap: the array is (a store chain over) an E.* contents map keyed by array references.
func contentsMap(a *Term) bool {
	r := arrayRoot(a)
	return r.Op == "var" && (strings.HasPrefix(r.Name, "E.") || strings.HasPrefix(r.Name, "hv.E."))
}

// rootKey identifies the array a select reads from, up to stores; for nested
// arrays (contents maps) the key of the inner array is derived from the outer map.
func rootKey(a *Term) string {
	r := arrayRoot(a)
	if r.Op == "select" {
		return "sel:" + rootKey(r.Args[0])
	}
	return fmt.Sprint(r.ID)
}

// sliceHyps keeps the conjuncts of the hypothesis that share a (non heap-map) symbol with the
// goal, transitively. Returns nil when nothing would be dropped.
func (tb *TB) sliceHyps(pc, neg *Term) *Term {
	var conj []*Term
	if pc.Op == "and" {
		conj = pc.Args
	} else {
		return nil
	}
	symMemo := map[int]map[string]bool{}
	var syms func(t *Term) map[string]bool
	syms = func(t *Term) map[string]bool {
		if m, ok := symMemo[t.ID]; ok {
			return m
		}
		m := map[string]bool{}
		switch {
		case t.Op == "var":
			if t.Sort.Kind != SArray && !strings.Contains(t.Name, "?") {
				m[t.Name] = true
			}
		case strings.HasPrefix(t.Op, "uf:"):
			if t.Name != "typeof" && t.Name != "pow2" {
				m["uf:"+t.Name] = true
			}
		}
		for _, a := range t.Args {
			for k := range syms(a) {
				m[k] = true
			}
		}
		symMemo[t.ID] = m
		return m
	}
	rel := map[string]bool{}
	for k := range syms(neg) {
		rel[k] = true
	}
	selected := make([]bool, len(conj))
	for changed := true; changed; {
		changed = false
		for i, c := range conj {
			if selected[i] {
				continue
			}
			cs := syms(c)
			hit := len(cs) == 0 // closed facts (e.g. about entry heap only) are cheap to keep
			for k := range cs {
				if rel[k] {
					hit = true
					break
				}
			}
			if hit {
				selected[i] = true
				changed = true
				for k := range cs {
					rel[k] = true
				}
			}
		}
	}
	var out []*Term
	dropped := 0
	for i, c := range conj {
		if selected[i] {
			out = append(out, c)
		} else {
			dropped++
		}
	}
	if dropped == 0 {
		return nil
	}
	return tb.And(out...)
}

// hashCongruence: the abstract digest update uf_hupd(h, elems, off, len) depends on the covered bytes only.
// For every pair of applications with the same initial state occurring in the query the ground instance
//
//	off1 = off2 /\ len1 = len2 /\ (forall i in [0,len): e1[off1+i] = e2[off2+i])  ==>  hupd1 = hupd2
//
// is added (the universal premise is skolemised, so the instance is quantifier-free).
func (tb *TB) hashCongruence(asserts []*Term) []*Term {
	var apps []*Term
	seen := map[int]bool{}
	var walk func(t *Term)
	walk = func(t *Term) {
		if seen[t.ID] {
			return
		}
		seen[t.ID] = true
		if t.Op == "uf:uf_hupd" && len(t.Args) == 4 {
			apps = append(apps, t)
		}
		for _, a := range t.Args {
			walk(a)
		}
	}
	for _, a := range asserts {
		walk(a)
	}
	var out []*Term
	if len(apps) > 12 {
		apps = apps[:12]
	}
	for i := 0; i < len(apps); i++ {
		for j := i + 1; j < len(apps); j++ {
			a, b := apps[i], apps[j]
			if a.Args[1] == b.Args[1] || a.Args[0].Sort != b.Args[0].Sort || mentionsBound(a) || mentionsBound(b) {
				continue
			}
			if a.Args[2].Sort != b.Args[2].Sort || a.Args[1].Sort != b.Args[1].Sort {
				continue
			}
			sk := tb.Fresh("hsk", a.Args[2].Sort)
			var inRange, differ *Term
			if sk.Sort.Kind == SBV {
				zero := tb.BVC(bigZero, sk.Sort.Width)
				inRange = tb.And(tb.BVCmp("bvsle", zero, sk), tb.BVCmp("bvslt", sk, a.Args[3]))
				differ = tb.Ne(tb.Select(a.Args[1], tb.BVBin("bvadd", a.Args[2], sk)), tb.Select(b.Args[1], tb.BVBin("bvadd", b.Args[2], sk)))
			} else {
				inRange = tb.And(tb.Le(tb.IntC(0), sk), tb.Lt(sk, a.Args[3]))
				differ = tb.Ne(tb.Select(a.Args[1], tb.Add(a.Args[2], sk)), tb.Select(b.Args[1], tb.Add(b.Args[2], sk)))
			}
			out = append(out, tb.Or(tb.Ne(a.Args[0], b.Args[0]), tb.Ne(a.Args[3], b.Args[3]), tb.And(inRange, differ), tb.Eq(a, b)))
		}
	}
	return out
}
