package main

// Initial values of package-level variables that are never assigned outside
// package initialisation ("immutable globals"): obtained by executing the
// package initialiser symbolically once and reading back constant values.

import (
	"go/types"
	"math/big"
	"sort"
	"strings"

	"golang.org/x/tools/go/ssa"
)

type globalInit struct {
	fields map[string]*big.Int // struct: scalar integer fields by heap map name
	kind   string              // scalar, slice, array, func, struct
	scalar *big.Int
	isBool bool
	elems  []*big.Int
	elemT  types.Type
	fn     *ssa.Function
}

func (e *Engine) computeGlobalInits() {
	e.globalInits = map[*ssa.Global]*globalInit{}
	var pkgs []*ssa.Package
	for _, p := range e.prog.AllPackages() {
		if strings.HasPrefix(p.Pkg.Path(), modulePath) && !strings.HasSuffix(p.Pkg.Path(), "/randtxt") {
			pkgs = append(pkgs, p)
		}
	}
	sort.Slice(pkgs, func(i, j int) bool { return pkgs[i].Pkg.Path() < pkgs[j].Pkg.Path() })
	for _, p := range pkgs {
		initFn := p.Func("init")
		if initFn == nil || len(initFn.Blocks) == 0 {
			continue
		}
		// function-valued globals initialised with a function literal and never re-assigned
		for _, b := range initFn.Blocks {
			for _, in := range b.Instrs {
				s, ok := in.(*ssa.Store)
				if !ok {
					continue
				}
				g, ok := s.Addr.(*ssa.Global)
				if !ok || len(e.storedGlobals[g]) > 0 {
					continue
				}
				if _, isSig := derefType(g.Type()).Underlying().(*types.Signature); !isSig {
					continue
				}
				switch v := s.Val.(type) {
				case *ssa.Function:
					e.globalInits[g] = &globalInit{kind: "func", fn: v}
				case *ssa.MakeClosure:
					if f, ok := v.Fn.(*ssa.Function); ok && len(v.Bindings) == 0 {
						e.globalInits[g] = &globalInit{kind: "func", fn: f}
					}
				}
			}
		}
		func() {
			defer func() { recover() }()
			x := e.newFnCtx(initFn, &Contract{Key: "init", Mode: "int", Loops: map[int]*LoopSpec{}})
			x.inInit = true
			tb := x.tb
			st := &State{pc: tb.True(), cells: map[*ssa.Alloc]Value{}, heap: &Heap{m: map[string]*Term{}, A: tb.IntC(1000)}, ghost: map[string]*Term{}}
			fr := &Frame{fn: initFn}
			fr.entry = st.Clone()
			rets := x.run(fr, st)
			if len(rets) == 0 {
				return
			}
			fin := rets[len(rets)-1].st
			for _, m := range p.Members {
				g, ok := m.(*ssa.Global)
				if !ok || len(e.storedGlobals[g]) > 0 {
					continue
				}
				if _, isSent := e.sentinels[g]; isSent {
					continue
				}
				et := derefType(g.Type())
				name := "G." + g.Pkg.Pkg.Path() + "." + g.Name()
				switch u := et.Underlying().(type) {
				case *types.Slice:
					arr, ok1 := fin.ghost[name+"#arr"]
					off, ok2 := fin.ghost[name+"#off"]
					ln, ok3 := fin.ghost[name+"#len"]
					if !ok1 || !ok2 || !ok3 || !arr.IsConst() || !off.IsConst() || !ln.IsConst() || ln.Val.Int64() > 256 || isStruct(u.Elem()) || !isScalar(u.Elem()) {
						continue
					}
					mname := "E." + elemKey(u.Elem())
					m, ok := fin.heap.m[mname]
					if !ok {
						continue
					}
					gi := &globalInit{kind: "slice", elemT: u.Elem()}
					good := true
					for i := int64(0); i < ln.Val.Int64(); i++ {
						v := x.sel(x.sel(m, arr), tb.IntC(off.Val.Int64()+i))
						if !v.IsConst() {
							good = false
							break
						}
						gi.elems = append(gi.elems, v.Val)
					}
					if good {
						e.globalInits[g] = gi
					}
				case *types.Array:
					if isStruct(u.Elem()) || !isScalar(u.Elem()) || u.Len() > 256 {
						continue
					}
					mname := "E." + elemKey(u.Elem())
					m, ok := fin.heap.m[mname]
					if !ok {
						continue
					}
					ref := x.globalRef(g)
					gi := &globalInit{kind: "array", elemT: u.Elem()}
					good := true
					for i := int64(0); i < u.Len(); i++ {
						v := x.sel(x.sel(m, ref), tb.IntC(i))
						if !v.IsConst() {
							good = false
							break
						}
						gi.elems = append(gi.elems, v.Val)
					}
					if good {
						e.globalInits[g] = gi
					}
				case *types.Struct:
					ref := x.globalRef(g)
					l := layoutOf(et)
					gi := &globalInit{kind: "struct", fields: map[string]*big.Int{}}
					for i := range l.Fields {
						fi := &l.Fields[i]
						if _, _, ok := intInfo(fi.T); !ok {
							continue
						}
						if m, ok := fin.heap.m[fieldMap(fi)]; ok {
							if v := x.sel(m, ref); v.IsConst() {
								gi.fields[fi.Name] = v.Val
							}
						}
					}
					if len(gi.fields) > 0 {
						e.globalInits[g] = gi
					}
				default:
					if isScalar(et) {
						if v, ok := fin.ghost[name]; ok && v.IsConst() {
							if _, _, isI := intInfo(et); isI || isBool(et) {
								e.globalInits[g] = &globalInit{kind: "scalar", scalar: v.Val, isBool: isBool(et)}
							}
						}
					}
				}
			}
		}()
	}
}

// immutableGlobal returns the entry value of an initialised, never re-assigned global.
func (x *FnCtx) immutableGlobal(g *ssa.Global, et types.Type, st *State) (Value, bool) {
	gi := x.eng.globalInits[g]
	if gi == nil {
		return nil, false
	}
	tb := x.tb
	x.usedAssumed["global treated as immutable after package initialisation: "+g.Pkg.Pkg.Path()+"."+g.Name()] = true
	switch gi.kind {
	case "struct":
		ref := x.globalRef(g)
		l := layoutOf(et)
		for i := range l.Fields {
			fi := &l.Fields[i]
			if v, ok := gi.fields[fi.Name]; ok {
				// immutability: the fact holds in the current heap, whatever happened to it
				m0 := x.heapGet(st.heap, fieldMap(fi), x.fieldMapSort(fi.T))
				st.pc = tb.And(st.pc, tb.Eq(tb.Select(m0, ref), x.intConst(v, fi.T)))
			}
		}
		return ref, true
	case "scalar":
		if gi.isBool {
			return tb.Bool(gi.scalar.Sign() != 0), true
		}
		return x.intConst(gi.scalar, et), true
	case "slice", "array":
		ref := x.globalRef(g)
		if gi.kind == "slice" {
			ref = tb.Add(ref, tb.IntC(1))
		}
		mname := "E." + elemKey(gi.elemT)
		m0 := x.heapGet(st.heap, mname, x.contentsSort(gi.elemT))
		for i, v := range gi.elems {
			var c *Term
			if isBool(gi.elemT) {
				c = tb.Bool(v.Sign() != 0)
			} else if _, _, ok := intInfo(gi.elemT); ok {
				c = x.intConst(v, gi.elemT)
			} else {
				c = tb.IntB(v)
			}
			if m0.Op == "var" {
				x.axiom(tb.Eq(tb.Select(tb.Select(m0, ref), x.idx(int64(i))), c))
			} else {
				st.pc = tb.And(st.pc, tb.Eq(tb.Select(tb.Select(m0, ref), x.idx(int64(i))), c))
			}
		}
		if gi.kind == "array" {
			return ref, true
		}
		n := x.idx(int64(len(gi.elems)))
		return SliceV{Arr: ref, Off: x.idx(0), Len: n, Cap: n}, true
	}
	return nil, false
}
