package main

import (
	"flag"
	"fmt"
	"os"
	"sort"
	"strings"
)

func main() {
	if len(os.Args) < 2 {
		fmt.Fprintln(os.Stderr, "usage: govc verify|check|list ...")
		os.Exit(2)
	}
	switch os.Args[1] {
	case "verify":
		cmdVerify(os.Args[2:])
	case "check":
		os.Exit(cmdCheck(os.Args[2:]))
	case "list":
		cmdList(os.Args[2:])
	default:
		fmt.Fprintln(os.Stderr, "unknown command", os.Args[1])
		os.Exit(2)
	}
}

func envOr(k, d string) string {
	if v := os.Getenv(k); v != "" {
		return v
	}
	return d
}

// cmdVerify: developer view of the obligations of some functions.
func cmdVerify(args []string) {
	fs := flag.NewFlagSet("verify", flag.ExitOnError)
	repo := fs.String("repo", envOr("GOVC_REPO", "/repo"), "repository")
	spec := fs.String("spec", envOr("GOVC_SPEC", "/verif/spec"), "spec dir")
	timeout := fs.Int("timeout", 10, "solver timeout (s)")
	verbose := fs.Bool("v", false, "show discharged obligations too")
	fs.Parse(args)
	initScratch()
	defer cleanupScratch()
	eng, err := NewEngine(*repo, *spec)
	if err != nil {
		fmt.Fprintln(os.Stderr, err)
		os.Exit(2)
	}
	var keys []string
	for _, a := range fs.Args() {
		matched := false
		for k := range eng.fnByKey {
			if k == a || strings.HasSuffix(k, "."+a) || strings.HasSuffix(k, "/"+a) {
				keys = append(keys, k)
				matched = true
			}
		}
		if !matched {
			fmt.Println("no function matches", a)
		}
	}
	sort.Strings(keys)
	var results []*FnResult
	for _, k := range keys {
		results = append(results, eng.VerifyFunction(k))
	}
	eng.Discharge(results, *timeout, 12)
	for _, r := range results {
		fmt.Printf("== %s (mode %s, %.2fs gen)\n", r.Key, r.Mode, r.Seconds)
		for _, e := range r.Errs {
			fmt.Println("   ERROR:", e)
		}
		for _, k := range sortedKeys(r.Abstr) {
			fmt.Printf("   abstracted: %s (x%d)\n", k, r.Abstr[k])
		}
		n, d := 0, 0
		for _, ob := range r.Obs {
			n++
			if ob.Status == "discharged" {
				d++
				if !*verbose {
					continue
				}
			}
			extra := ""
			if ob.Result != nil {
				extra = fmt.Sprintf(" [%s %.2fs]", ob.Result.Solver, ob.Result.Seconds)
				if ob.Status == "failed" && !ob.Cover {
					extra += " model: " + modelSummary(ob.Result.Model)
				}
				if ob.Status == "unknown" {
					extra += " " + strings.ReplaceAll(ob.Result.Output, "\n", " | ")
				}
			}
			opt := ""
			if ob.Optional {
				opt = " (optional)"
			}
			where := ""
			if r.ctx != nil {
				base := ob.Name
				if i := strings.Index(base, "/pre#"); i >= 0 {
					base = base[:i]
				}
				if p, ok := r.ctx.sitePos[base]; ok {
					where = " @" + p
				}
			}
			fmt.Printf("   %-10s %s%s%s%s  %s\n", ob.Status, ob.Name, where, opt, extra, ob.Goal)
		}
		fmt.Printf("   %d/%d discharged\n", d, n)
	}
}

func modelSummary(m map[string]string) string {
	var ks []string
	for k := range m {
		if strings.HasPrefix(k, "p.") || strings.Contains(k, "!") && len(m[k]) < 40 {
			ks = append(ks, k)
		}
	}
	sort.Strings(ks)
	var out []string
	for _, k := range ks {
		if len(out) > 24 {
			break
		}
		if strings.HasPrefix(k, "p.") {
			out = append(out, k+"="+m[k])
		}
	}
	return strings.Join(out, " ")
}

func cmdList(args []string) {
	initScratch()
	defer cleanupScratch()
	eng, err := NewEngine(envOr("GOVC_REPO", "/repo"), envOr("GOVC_SPEC", "/verif/spec"))
	if err != nil {
		fmt.Fprintln(os.Stderr, err)
		os.Exit(2)
	}
	for _, k := range sortedKeys(eng.specs.Contracts) {
		c := eng.specs.Contracts[k]
		_, found := eng.fnByKey[k]
		fmt.Printf("%-70s mode=%s props=%v assumed=%v found=%v\n", k, c.Mode, c.Props, c.Assumed, found)
	}
}
