package main

// Solver portfolio: z3-new, cvc5, z3 (4.8.12) raced per query.

import (
	"bytes"
	"context"
	"fmt"
	"os"
	"os/exec"
	"path/filepath"
	"strings"
	"sync"
	"time"
)

type SolverResult struct {
	Status  string // "unsat", "sat", "unknown"
	Solver  string
	Seconds float64
	Output  string            // raw output of the deciding solver (or all, on unknown)
	Model   map[string]string // var -> value text (only simple consts), when sat
}

type solverSpec struct {
	name string
	argv func(file string, timeoutS int) []string
}

var solverSpecs = []solverSpec{
	{"z3-new", func(f string, t int) []string { return []string{"z3-new", fmt.Sprintf("-T:%d", t), f} }},
	{"cvc5", func(f string, t int) []string {
		return []string{"cvc5", fmt.Sprintf("--tlimit=%d", t*1000), "--produce-models", f}
	}},
	{"z3", func(f string, t int) []string { return []string{"z3", fmt.Sprintf("-T:%d", t), f} }},
}

var (
	solverStatsMu sync.Mutex
	solverStats   = map[string]*struct {
		N int
		S float64
	}{}
	scratchDir string
	queryCount int
)

func initScratch() {
	d, err := os.MkdirTemp("", "govc-q-")
	if err != nil {
		panic(err)
	}
	scratchDir = d
}

func cleanupScratch() {
	if scratchDir != "" {
		os.RemoveAll(scratchDir)
	}
}

func recordStat(name string, secs float64) {
	solverStatsMu.Lock()
	defer solverStatsMu.Unlock()
	s := solverStats[name]
	if s == nil {
		s = &struct {
			N int
			S float64
		}{}
		solverStats[name] = s
	}
	s.N++
	s.S += secs
}

// Solve races the portfolio on the script. hasQuant/hasLambda drive solver choice.
func Solve(script string, timeoutS int, only string) SolverResult {
	solverStatsMu.Lock()
	queryCount++
	id := queryCount
	solverStatsMu.Unlock()
	file := filepath.Join(scratchDir, fmt.Sprintf("q%d.smt2", id))
	if err := os.WriteFile(file, []byte(script), 0644); err != nil {
		return SolverResult{Status: "unknown", Output: err.Error()}
	}
	defer os.Remove(file)

	ctx, cancel := context.WithCancel(context.Background())
	defer cancel()
	type res struct {
		name   string
		status string
		out    string
		secs   float64
	}
	ch := make(chan res, len(solverSpecs))
	n := 0
	for _, sp := range solverSpecs {
		if only != "" && only != sp.name {
			continue
		}
		n++
		go func(sp solverSpec) {
			start := time.Now()
			argv := sp.argv(file, timeoutS)
			c, cancel2 := context.WithTimeout(ctx, time.Duration(timeoutS+2)*time.Second)
			defer cancel2()
			cmd := exec.CommandContext(c, argv[0], argv[1:]...)
			var out bytes.Buffer
			cmd.Stdout = &out
			cmd.Stderr = &out
			cmd.Run()
			o := out.String()
			first := strings.TrimSpace(strings.SplitN(o, "\n", 2)[0])
			st := "unknown"
			if first == "unsat" || first == "sat" {
				st = first
			}
			ch <- res{sp.name, st, o, time.Since(start).Seconds()}
		}(sp)
	}
	var all []string
	for i := 0; i < n; i++ {
		r := <-ch
		if r.status == "unsat" || r.status == "sat" {
			cancel()
			recordStat(r.name, r.secs)
			sr := SolverResult{Status: r.status, Solver: r.name, Seconds: r.secs, Output: r.out}
			if r.status == "sat" {
				sr.Model = parseModel(r.out)
			}
			return sr
		}
		all = append(all, fmt.Sprintf("[%s %.1fs] %s", r.name, r.secs, strings.TrimSpace(firstLines(r.out, 3))))
	}
	return SolverResult{Status: "unknown", Output: strings.Join(all, "\n")}
}

func firstLines(s string, n int) string {
	ls := strings.Split(s, "\n")
	if len(ls) > n {
		ls = ls[:n]
	}
	return strings.Join(ls, "\n")
}

// parseModel extracts (define-fun |name| () Sort value) entries with simple values.
func parseModel(out string) map[string]string {
	m := map[string]string{}
	toks := tokenizeSexp(out)
	// scan for "( define-fun name ( ) sort value )"
	for i := 0; i+4 < len(toks); i++ {
		if toks[i] == "(" && toks[i+1] == "define-fun" {
			name := strings.Trim(toks[i+2], "|")
			if toks[i+3] != "(" || toks[i+4] != ")" {
				continue
			}
			j := i + 5
			// skip sort
			j = skipSexp(toks, j)
			k := skipSexp(toks, j)
			if k > j && k <= len(toks) {
				m[name] = strings.Join(toks[j:k], " ")
			}
			i = k - 1
		}
	}
	return m
}

func skipSexp(toks []string, j int) int {
	if j >= len(toks) {
		return j
	}
	if toks[j] != "(" {
		return j + 1
	}
	d := 0
	for ; j < len(toks); j++ {
		if toks[j] == "(" {
			d++
		} else if toks[j] == ")" {
			d--
			if d == 0 {
				return j + 1
			}
		}
	}
	return j
}

func tokenizeSexp(s string) []string {
	var toks []string
	i := 0
	for i < len(s) {
		c := s[i]
		switch {
		case c == '(' || c == ')':
			toks = append(toks, string(c))
			i++
		case c == ' ' || c == '\n' || c == '\t' || c == '\r':
			i++
		case c == '|':
			j := i + 1
			for j < len(s) && s[j] != '|' {
				j++
			}
			toks = append(toks, s[i:j+1])
			i = j + 1
		case c == ';':
			for i < len(s) && s[i] != '\n' {
				i++
			}
		case c == '"':
			j := i + 1
			for j < len(s) && s[j] != '"' {
				j++
			}
			toks = append(toks, s[i:min(j+1, len(s))])
			i = j + 1
		default:
			j := i
			for j < len(s) && !strings.ContainsRune("() \n\t\r", rune(s[j])) {
				j++
			}
			toks = append(toks, s[i:j])
			i = j
		}
	}
	return toks
}
