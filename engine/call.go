package main

// Calls (modular: callee contract; or inlining; or havoc), loops, defers,
// modifies clauses.

import (
	"fmt"
	"go/types"
	"strings"

	"golang.org/x/tools/go/ssa"
)

const maxInlineDepth = 4

func (x *FnCtx) call(fr *Frame, st *State, in ssa.Value, c *ssa.CallCommon) Value {
	var site string
	if instr, ok := in.(ssa.Instruction); ok {
		site = fr.prefix + fr.siteOrd[instr]
	}
	var resT types.Type
	if in != nil {
		resT = in.Type()
	} else {
		resT = c.Signature().Results()
	}
	// builtins
	if b, ok := c.Value.(*ssa.Builtin); ok {
		return x.builtin(fr, st, in, b.Name(), c.Args, site)
	}
	var args []Value
	for _, a := range c.Args {
		args = append(args, x.val(fr, st, a))
	}
	if c.IsInvoke() {
		recv := x.term(fr, st, c.Value)
		x.safetyOb("nil", site+"/recv", st, x.tb.Ne(recv, x.tb.IntC(0)))
		key := shortTypeName(c.Value.Type()) + "." + c.Method.Name()
		full := append([]Value{recv}, args...)
		if fr.ctr != nil && fr.depth == 0 {
			if cands, ok := fr.ctr.Dispatch[strings.TrimPrefix(site, fr.prefix)]; ok {
				return x.dispatchCall(fr, st, recv, full, cands, site, resT)
			}
		}
		if fr.ctr != nil && fr.depth == 0 {
			if k, ok := fr.ctr.Use[strings.TrimPrefix(site, fr.prefix)]; ok {
				ctr := x.eng.specs.Contracts[k]
				if ctr == nil {
					ctr = x.eng.specs.Contracts[canonKey(pkgOf(fr.fn).Path(), k)]
				}
				if ctr != nil {
					x.usedAssumed["call site "+site+" of "+shortFn(x.key)+": "+k] = true
					return x.applyContract(fr, st, ctr, nil, c.Signature(), c.Value.Type(), full, site, resT)
				}
				x.errs = append(x.errs, fmt.Sprintf("%s: contract %s named by 'use' not found", site, k))
			}
		}
		if ctr := x.eng.specs.Contracts[key]; ctr != nil {
			return x.applyContract(fr, st, ctr, nil, c.Signature(), c.Value.Type(), full, site, resT)
		}
		// closed module interface with a single implementation: devirtualise
		if !x.eng.openInterface(c.Value.Type()) {
			impl := x.implementers(c.Value.Type())
			if len(impl) == 1 {
				m := x.eng.prog.LookupMethod(impl[0], c.Method.Pkg(), c.Method.Name())
				if pt, isPtr := impl[0].(*types.Pointer); isPtr && (m == nil || m.Synthetic != "") {
					// value-receiver method reached through the pointer type: use the declared method
					if vm := x.eng.prog.LookupMethod(pt.Elem(), c.Method.Pkg(), c.Method.Name()); vm != nil && vm.Synthetic == "" {
						m = vm
					}
				}
				if m != nil {
					if _, isPtr := impl[0].(*types.Pointer); isPtr {
						st.pc = x.tb.And(st.pc, x.tb.Eq(x.typeOf(recv), x.typeTag(impl[0])))
					} else {
						// methods with value receivers: the interface may hold T or *T; both keep the struct at recv
						st.pc = x.tb.And(st.pc, x.tb.Or(x.tb.Eq(x.typeOf(recv), x.typeTag(impl[0])), x.tb.Eq(x.typeOf(recv), x.typeTag(types.NewPointer(impl[0])))))
					}
					if m.Signature.Recv() != nil {
						if _, precv := m.Signature.Recv().Type().(*types.Pointer); !precv {
							full[0] = StructV{H: st.heap.Clone(), Ref: recv, T: m.Signature.Recv().Type()}
						}
					}
					return x.callFunction(fr, st, m, full, nil, site, resT)
				}
			}
		}
		return x.unknownCall(st, key, full, resT, site)
	}
	switch callee := c.Value.(type) {
	case *ssa.Function:
		variant := ""
		for _, a := range c.Args {
			if mi, ok := a.(*ssa.MakeInterface); ok {
				tn := shortTypeName(mi.X.Type())
				if i := strings.LastIndex(tn, "."); i >= 0 {
					tn = tn[i+1:]
				}
				variant = tn
				break
			}
		}
		return x.callFunction(fr, st, callee, args, nil, site, resT, variant)
	case *ssa.MakeClosure:
		var bs []Value
		for _, b := range callee.Bindings {
			bs = append(bs, x.val(fr, st, b))
		}
		return x.callFunction(fr, st, callee.Fn.(*ssa.Function), args, bs, site, resT)
	}
	if fv, ok := x.val(fr, st, c.Value).(FuncV); ok {
		return x.callFunction(fr, st, fv.Fn, args, fv.Bindings, site, resT)
	}
	if u, ok := c.Value.(*ssa.UnOp); ok {
		if g, ok := u.X.(*ssa.Global); ok {
			if gi := x.eng.globalInits[g]; gi != nil && gi.kind == "func" && gi.fn != nil {
				x.usedAssumed["global treated as immutable after package initialisation: "+g.Pkg.Pkg.Path()+"."+g.Name()] = true
				return x.callFunction(fr, st, gi.fn, args, nil, site, resT)
			}
		}
	}
	if name := dynFieldName(c.Value); name != "" {
		if ctr := x.eng.specs.Contracts[pkgOf(fr.fn).Path()+".dyn."+name]; ctr != nil {
			return x.applyContract(fr, st, ctr, nil, c.Signature(), nil, args, site, resT)
		}
	}
	return x.unknownCall(st, "dynamic call", args, resT, site)
}

func (x *FnCtx) callFunction(fr *Frame, st *State, callee *ssa.Function, args []Value, binds []Value, site string, resT types.Type, variants ...string) Value {
	variant := ""
	if len(variants) > 0 {
		variant = variants[0]
	}
	key := funcKey(callee)
	// contract variant selected by the concrete type behind an interface argument: key@Type
	if variant != "" {
		if ctr := x.eng.specs.Contracts[key+"@"+variant]; ctr != nil {
			var recvT types.Type
			if callee.Signature.Recv() != nil {
				recvT = callee.Signature.Recv().Type()
			}
			return x.applyContract(fr, st, ctr, callee, callee.Signature, recvT, args, site, resT)
		}
	}
	if fr.ctr != nil && fr.depth == 0 {
		if k, ok := fr.ctr.Use[strings.TrimPrefix(site, fr.prefix)]; ok {
			ctr := x.eng.specs.Contracts[k]
			if ctr == nil {
				ctr = x.eng.specs.Contracts[canonKey(pkgOf(fr.fn).Path(), k)]
			}
			if ctr != nil {
				x.usedAssumed["call site "+site+" of "+shortFn(x.key)+": "+k] = true
				var recvT types.Type
				if callee.Signature.Recv() != nil {
					recvT = callee.Signature.Recv().Type()
				}
				return x.applyContract(fr, st, ctr, callee, callee.Signature, recvT, args, site, resT)
			}
			x.errs = append(x.errs, fmt.Sprintf("%s: contract %s named by 'use' not found", site, k))
		}
	}
	if ctr := x.eng.specs.Contracts[key]; ctr != nil && !ctr.Inline {
		var recvT types.Type
		if callee.Signature.Recv() != nil {
			recvT = callee.Signature.Recv().Type()
		}
		return x.applyContract(fr, st, ctr, callee, callee.Signature, recvT, args, site, resT)
	}
	if key == "errors.New" || key == "fmt.Errorf" {
		// a fresh non-nil error value, distinct from every sentinel
		r := x.alloc(st.heap, x.tb.IntC(1))
		return r
	}
	if x.eng.noEffect(key) {
		x.usedAssumed["no-effect: "+key] = true
		return x.freshResult(st, key, resT)
	}
	if len(callee.Blocks) > 0 && fr.depth < maxInlineDepth && !x.onStack(fr, callee) && x.eng.inModule(callee) {
		return x.inline(fr, st, callee, args, binds, site)
	}
	return x.unknownCall(st, key, args, resT, site)
}

func (x *FnCtx) onStack(fr *Frame, f *ssa.Function) bool {
	for p := fr; p != nil; p = p.parent() {
		if p.fn == f {
			return true
		}
	}
	return false
}

var frameParents = map[*Frame]*Frame{}

func (fr *Frame) parent() *Frame { return frameParents[fr] }

func (x *FnCtx) inline(fr *Frame, st *State, callee *ssa.Function, args []Value, binds []Value, site string) Value {
	x.usedInlined[funcKey(callee)] = true
	nf := &Frame{fn: callee, params: args, depth: fr.depth + 1,
		prefix: site + ">", binds: binds}
	frameParents[nf] = fr
	defer delete(frameParents, nf)
	entry := st.Clone()
	nf.entry = entry
	rets := x.run(nf, st)
	if len(rets) == 0 {
		st.pc = x.tb.False()
		return x.freshOf("noreturn", callee.Signature.Results())
	}
	var es []edge
	var results [][]Value
	var retPCs []*Term
	for _, r := range rets {
		es = append(es, edge{nil, r.st})
		results = append(results, r.results)
		retPCs = append(retPCs, r.st.pc) // before st (possibly one of the return states) is overwritten
	}
	merged := x.mergeStates(es)
	*st = *merged
	n := callee.Signature.Results().Len()
	out := make(TupleV, n)
	for k := 0; k < n; k++ {
		var vals []Value
		for i := range rets {
			vals = append(vals, results[i][k])
		}
		out[k] = x.mergeValues(retPCs, vals)
	}
	switch n {
	case 0:
		return nil
	case 1:
		return out[0]
	}
	return out
}

func (x *FnCtx) freshResult(st *State, name string, resT types.Type) Value {
	if resT == nil {
		return nil
	}
	if tt, ok := resT.(*types.Tuple); ok {
		switch tt.Len() {
		case 0:
			return nil
		case 1:
			return x.freshTyped(st, "ret."+name, tt.At(0).Type())
		}
		var out TupleV
		for i := 0; i < tt.Len(); i++ {
			out = append(out, x.freshTyped(st, fmt.Sprintf("ret%d.%s", i, name), tt.At(i).Type()))
		}
		return out
	}
	return x.freshTyped(st, "ret."+name, resT)
}

// freshTyped makes an unconstrained value of type t; struct results live in a fresh object.
func (x *FnCtx) freshTyped(st *State, name string, t types.Type) Value {
	if isStruct(t) {
		r := x.alloc(st.heap, x.tb.IntC(layoutOf(t).Size))
		x.havocObject(st, r, t)
		return StructV{H: st.heap.Clone(), Ref: r, T: t}
	}
	v := x.freshOf(name, t)
	x.assumeTypeV(st, v, t)
	return v
}

var _ = types.Typ

func (x *FnCtx) havocObject(st *State, ref *Term, t types.Type) {
	l := layoutOf(t)
	for i := range l.Fields {
		fi := &l.Fields[i]
		switch u := fi.T.Underlying().(type) {
		case *types.Struct:
			x.havocObject(st, x.refAdd(ref, fi.Off), fi.T)
		case *types.Array:
			if isStruct(u.Elem()) {
				for k := int64(0); k < u.Len(); k++ {
					x.havocObject(st, x.refAdd(ref, fi.Off+k*slotSize(u.Elem())), u.Elem())
				}
			} else {
				x.storeField(st.heap, ref, fi, x.tb.Fresh("havoc."+fi.Name, x.sortOf(fi.T)))
			}
		default:
			v := x.freshOf("havoc."+fi.Name, fi.T)
			x.storeField(st.heap, ref, fi, v)
		}
	}
}

// unknownCall: no contract and no body: everything reachable may change.
func (x *FnCtx) unknownCall(st *State, name string, args []Value, resT types.Type, site string) Value {
	if x.inInit {
		return x.freshResult(st, name, resT)
	}
	x.hasUnknownCall = true
	x.abstracted("call without contract havocs the heap: " + name)
	x.havocAll(st)
	x.havocGhosts(st)
	return x.freshResult(st, name, resT)
}

func (x *FnCtx) havocAll(st *State) {
	tb := x.tb
	// every heap map becomes unknown: forget all of them and switch to a fresh family of
	// lazily created variables (also covers maps this function has not touched yet)
	keep := map[string]*Term{}
	for k, t := range st.heap.m {
		if strings.HasPrefix(k, "B.") {
			keep[k] = t
		}
		if strings.HasPrefix(k, "H.$.") {
			if g := x.eng.specs.Ghosts["."+strings.TrimPrefix(k, "H.$.")]; g != nil && g.Immutable {
				keep[k] = t
			}
		}
	}
	oldBase := st.heap.baseSuffix()
	st.heap.base = fmt.Sprintf("$h%d", tb.nextID())
	// immutable / box maps not yet materialised keep their old identity
	for k := range x.heapSorts {
		if _, done := keep[k]; done {
			continue
		}
		imm := strings.HasPrefix(k, "B.")
		if strings.HasPrefix(k, "H.$.") {
			if g := x.eng.specs.Ghosts["."+strings.TrimPrefix(k, "H.$.")]; g != nil && g.Immutable {
				imm = true
			}
		}
		if imm {
			keep[k] = tb.Var(k+oldBase, x.heapSorts[k])
		}
	}
	for _, g := range x.eng.specs.Ghosts {
		if g.Field && g.Immutable {
			k := "H.$." + g.Name
			if _, done := keep[k]; !done {
				ec := &EvalCtx{x: x}
				if t := ec.typeByName(g.Type); t != nil {
					s := ArraySort(IntSort, x.sortOf(t))
					x.heapSorts[k] = s
					keep[k] = tb.Var(k+oldBase, s)
				}
			}
		}
	}
	st.heap.m = keep
	// package-level variables (G.*) are part of "everything"
	for k := range st.ghost {
		if strings.HasPrefix(k, "G.") {
			delete(st.ghost, k)
		}
	}
	a := tb.Fresh("A", IntSort)
	st.pc = tb.And(st.pc, tb.Le(st.heap.A, a))
	st.heap.A = a
}

// havocGhosts forgets every ghost variable (also those not read so far).
func (x *FnCtx) havocGhosts(st *State) {
	st.ghost = map[string]*Term{}
	st.gbase = fmt.Sprintf("$g%d", x.tb.nextID())
}

// ---------- contracts at call sites ----------

func (x *FnCtx) paramBindings(sig *types.Signature, recvT types.Type, fn *ssa.Function, args []Value) (map[string]TV, []string) {
	ps := map[string]TV{}
	var resNames []string
	i := 0
	if recvT != nil {
		name := "recv"
		if sig.Recv() != nil && sig.Recv().Name() != "" && sig.Recv().Name() != "_" {
			name = sig.Recv().Name()
		}
		if i < len(args) {
			ps[name] = TV{V: args[i], T: recvT}
			ps["recv"] = ps[name]
		}
		i++
	}
	for k := 0; k < sig.Params().Len(); k++ {
		p := sig.Params().At(k)
		name := p.Name()
		if name == "" || name == "_" {
			name = fmt.Sprintf("arg%d", k)
		}
		if i < len(args) {
			ps[name] = TV{V: args[i], T: p.Type()}
			ps[fmt.Sprintf("arg%d", k)] = ps[name]
		}
		i++
	}
	for k := 0; k < sig.Results().Len(); k++ {
		n := sig.Results().At(k).Name()
		if n == "" {
			n = fmt.Sprintf("result%d", k)
			if k == sig.Results().Len()-1 && types.Identical(sig.Results().At(k).Type(), types.Universe.Lookup("error").Type()) {
				n = "err"
			}
		}
		resNames = append(resNames, n)
	}
	return ps, resNames
}

func (x *FnCtx) calleePkg(ctr *Contract, fn *ssa.Function) *types.Package {
	if fn != nil && fn.Pkg != nil {
		return fn.Pkg.Pkg
	}
	// from the contract key: longest package path prefix
	for _, sp := range x.eng.prog.AllPackages() {
		if strings.HasPrefix(ctr.Key, sp.Pkg.Path()+".") {
			rest := strings.TrimPrefix(ctr.Key, sp.Pkg.Path()+".")
			if !strings.Contains(rest, "/") {
				return sp.Pkg
			}
		}
	}
	return nil
}

func (x *FnCtx) applyContract(fr *Frame, st *State, ctr *Contract, callee *ssa.Function, sig *types.Signature,
	recvT types.Type, args []Value, site string, resT types.Type) Value {
	tb := x.tb
	x.calleeUse[ctr.Key]++
	if ctr.Assumed {
		x.usedAssumed[ctr.Key] = true
	}
	// pointer-to-scalar arguments: copy in through the cell heap
	type copyBack struct {
		loc LocV
		ref *Term
		t   types.Type
	}
	var cbs []copyBack
	args = append([]Value{}, args...)
	for i, a := range args {
		if lv, ok := a.(LocV); ok {
			et := lv.T
			if lv.Kind == LCell {
				et = derefType(lv.Cell.Type())
			}
			if lv.Kind == LGlobal {
				continue
			}
			if !isScalar(et) {
				continue
			}
			r := x.alloc(st.heap, tb.IntC(1))
			cur := x.load(fr, st, lv, types.NewPointer(et))
			name := "C." + elemKey(et)
			if t, ok := cur.(*Term); ok {
				st.heap.m[name] = tb.Store(x.heapGet(st.heap, name, x.fieldMapSort(et)), r, t)
			}
			args[i] = r
			cbs = append(cbs, copyBack{lv, r, et})
		}
	}
	params, resNames := x.paramBindings(sig, recvT, callee, args)
	pre := st.Clone()
	pkg := x.calleePkg(ctr, callee)
	ec := &EvalCtx{x: x, fn: callee, pkg: pkg, cur: st, old: pre, params: params, oldA: pre.heap.A}
	for i, rq := range ctr.Requires {
		if !x.eng.clauseActive(rq) {
			continue
		}
		g, facts := ec.boolWithFacts(rq.E)
		if ec.err != nil {
			x.errs = append(x.errs, fmt.Sprintf("%s: requires of %s: %v", site, ctr.Key, ec.err))
			ec.err = nil
			continue
		}
		st.pc = tb.And(st.pc, facts)
		x.addOb("pre", fmt.Sprintf("%s/pre#%d", site, i+1), st, g, false, rq.Src)
		st.pc = tb.And(st.pc, g)
	}
	// havoc the modifies set
	x.havocModifies(st, pre, ctr, ec)
	gn := map[string]bool{}
	for _, ef := range ctr.Effects {
		ghostNames(ef.E, gn)
	}
	for g := range gn {
		x.havocItems(st, []modItem{{kind: "ghost", ghost: g}})
	}
	// the callee may allocate
	a := tb.Fresh("A", IntSort)
	st.pc = tb.And(st.pc, tb.Le(st.heap.A, a))
	st.heap.A = a
	// results
	res := x.freshResult(st, shortKey(ctr.Key), resT)
	var rtvs []TV
	rs := sig.Results()
	switch rs.Len() {
	case 0:
	case 1:
		rtvs = []TV{{V: res, T: rs.At(0).Type()}}
	default:
		for k, v := range res.(TupleV) {
			rtvs = append(rtvs, TV{V: v, T: rs.At(k).Type()})
		}
	}
	pc := &EvalCtx{x: x, fn: callee, pkg: pkg, cur: st, old: pre, params: params, results: rtvs, resNames: resNames, oldA: pre.heap.A}
	for _, en := range append(append([]Clause{}, ctr.Ensures...), ctr.Effects...) {
		if !x.eng.clauseActive(en) {
			continue
		}
		g, facts := pc.boolWithFacts(en.E)
		if pc.err != nil {
			x.errs = append(x.errs, fmt.Sprintf("%s: ensures of %s: %v", site, ctr.Key, pc.err))
			pc.err = nil
			continue
		}
		st.pc = tb.And(st.pc, g, facts)
	}
	for _, cb := range cbs {
		name := "C." + elemKey(cb.t)
		v := x.sel(x.heapGet(st.heap, name, x.fieldMapSort(cb.t)), cb.ref)
		x.store(fr, st, cb.loc, v, types.NewPointer(cb.t))
	}
	return res
}

func shortKey(k string) string {
	if i := strings.LastIndex(k, "/"); i >= 0 {
		return k[i+1:]
	}
	return k
}

// ---------- modifies ----------

type modItem struct {
	kind  string // field, elems, object, all, cell, ghost
	ref   *Term
	fi    *fieldInfo
	sl    SliceV
	et    types.Type
	t     types.Type
	ghost string
	src   string
}

func (x *FnCtx) resolveModifies(items []*Expr, ec *EvalCtx, where string) []modItem {
	var out []modItem
	for _, it := range items {
		if it.Kind == "call" && len(it.Args) >= 1 && it.Args[0].Kind == "ident" {
			if fd := x.eng.specs.Frames[it.Args[0].Name]; fd != nil && len(fd.Params) == len(it.Args)-1 {
				m := map[string]*Expr{}
				for i, pn := range fd.Params {
					m[pn] = it.Args[i+1]
				}
				var sub []*Expr
				for _, fi := range fd.Items {
					sub = append(sub, substExpr(fi, m))
				}
				out = append(out, x.resolveModifies(sub, ec, where)...)
				continue
			}
		}
		mi, err := x.resolveModItem(it, ec)
		if err != nil {
			x.errs = append(x.errs, fmt.Sprintf("%s: modifies %s: %v", where, it, err))
			out = append(out, modItem{kind: "all", src: it.String()})
			continue
		}
		mi.src = it.String()
		out = append(out, mi)
	}
	return out
}

func (x *FnCtx) resolveModItem(it *Expr, ec *EvalCtx) (modItem, error) {
	ec.err = nil
	switch it.Kind {
	case "unary":
		if it.Name == "*" {
			v := ec.eval(it.Args[0])
			if ec.err != nil {
				return modItem{}, ec.err
			}
			pt, ok := v.T.Underlying().(*types.Pointer)
			if !ok {
				return modItem{}, fmt.Errorf("not a pointer")
			}
			if isStruct(pt.Elem()) {
				return modItem{kind: "object", ref: ec.mat(v, v.T), t: pt.Elem()}, nil
			}
			return modItem{kind: "cell", ref: ec.mat(v, v.T), t: pt.Elem()}, nil
		}
	case "ident":
		if it.Name == "everything" {
			return modItem{kind: "all"}, nil
		}
		if it.Name == "nothing" {
			return modItem{kind: "none"}, nil
		}
		if strings.HasPrefix(it.Name, "E_") {
			return modItem{kind: "emap", ghost: "E." + it.Name[2:]}, nil
		}
		if strings.HasPrefix(it.Name, "H_") {
			// H_<struct>_<field>: that field of every object of the struct type (whole field map)
			parts := strings.SplitN(it.Name[2:], "_", 2)
			if len(parts) == 2 {
				if t := ec.typeByName(parts[0]); t != nil && isStruct(t) {
					l := layoutOf(t)
					for i := range l.Fields {
						fi := &l.Fields[i]
						if fi.Name == parts[1] {
							x.heapGet(ec.cur.heap, fieldMap(fi), x.fieldMapSort(fi.T))
							return modItem{kind: "emap", ghost: fieldMap(fi)}, nil
						}
					}
				}
			}
			return modItem{}, fmt.Errorf("unknown field map %s", it.Name)
		}
		if strings.HasPrefix(it.Name, "$") {
			return modItem{kind: "ghost", ghost: it.Name}, nil
		}
	case "allelems":
		v := ec.eval(it.Args[0])
		if ec.err != nil {
			return modItem{}, ec.err
		}
		switch vv := v.V.(type) {
		case SliceV:
			return modItem{kind: "elems", sl: vv, et: v.T.Underlying().(*types.Slice).Elem()}, nil
		case *Term:
			if at, ok := v.T.Underlying().(*types.Array); ok {
				// array field: need its reference, re-resolve as field
				if it.Args[0].Kind == "field" {
					ref, fi, err := x.fieldRef(it.Args[0], ec)
					if err != nil {
						return modItem{}, err
					}
					return modItem{kind: "elems", sl: SliceV{Arr: x.refAdd(ref, fi.Off), Off: x.idx(0), Len: x.idx(at.Len()), Cap: x.idx(at.Len())}, et: at.Elem()}, nil
				}
			}
		}
		return modItem{}, fmt.Errorf("[..] on non-slice")
	case "field":
		if it.Name == "*" {
			v := ec.eval(it.Args[0])
			if ec.err != nil {
				return modItem{}, ec.err
			}
			switch vv := v.V.(type) {
			case *Term:
				if pt, ok := v.T.Underlying().(*types.Pointer); ok && isStruct(pt.Elem()) {
					return modItem{kind: "object", ref: vv, t: pt.Elem()}, nil
				}
			case StructV:
				return modItem{kind: "object", ref: vv.Ref, t: vv.T}, nil
			}
			return modItem{}, fmt.Errorf(".* on non-struct")
		}
		if strings.HasPrefix(it.Name, "$") {
			g, ok := x.eng.specs.Ghosts["."+it.Name[1:]]
			if !ok {
				return modItem{}, fmt.Errorf("unknown ghost field %s", it.Name)
			}
			v := ec.eval(it.Args[0])
			if ec.err != nil {
				return modItem{}, ec.err
			}
			var r *Term
			switch bv := v.V.(type) {
			case StructV:
				r = bv.Ref
			case *Term:
				r = bv
			default:
				return modItem{}, fmt.Errorf("ghost field of %T", v.V)
			}
			gt := ec.typeByName(g.Type)
			fi := &fieldInfo{Name: g.Name, T: gt, Struct: "$"}
			fieldByMap[fieldMap(fi)] = fi
			return modItem{kind: "field", ref: r, fi: fi}, nil
		}
		ref, fi, err := x.fieldRef(it, ec)
		if err != nil {
			return modItem{}, err
		}
		if isStruct(fi.T) {
			return modItem{kind: "object", ref: x.refAdd(ref, fi.Off), t: fi.T}, nil
		}
		if at, ok := fi.T.Underlying().(*types.Array); ok && !isStruct(at.Elem()) {
			return modItem{kind: "elems", sl: SliceV{Arr: x.refAdd(ref, fi.Off), Off: x.idx(0), Len: x.idx(at.Len()), Cap: x.idx(at.Len())}, et: at.Elem()}, nil
		}
		return modItem{kind: "field", ref: ref, fi: fi}, nil
	}
	return modItem{}, fmt.Errorf("unsupported modifies item")
}

// fieldRef resolves e.f to (object ref, field info).
func (x *FnCtx) fieldRef(it *Expr, ec *EvalCtx) (*Term, *fieldInfo, error) {
	base := ec.eval(it.Args[0])
	if ec.err != nil {
		return nil, nil, ec.err
	}
	var ref *Term
	var st types.Type
	switch bv := base.V.(type) {
	case StructV:
		ref, st = bv.Ref, bv.T
	case *Term:
		pt, ok := base.T.Underlying().(*types.Pointer)
		if !ok || !isStruct(pt.Elem()) {
			return nil, nil, fmt.Errorf("field of non-struct")
		}
		ref, st = bv, pt.Elem()
	default:
		return nil, nil, fmt.Errorf("field of %T", base.V)
	}
	path, ok := findField(st, it.Name)
	if !ok {
		return nil, nil, fmt.Errorf("no field %s", it.Name)
	}
	for _, fi := range path[:len(path)-1] {
		ref = x.refAdd(ref, fi.Off)
	}
	return ref, path[len(path)-1], nil
}

func (x *FnCtx) havocModifies(st, pre *State, ctr *Contract, ec *EvalCtx) {
	save := ec.cur
	ec.cur = pre
	items := x.resolveModifies(ctr.Modifies, ec, ctr.Key)
	ec.cur = save
	x.havocItems(st, items)
}

func (x *FnCtx) havocItems(st *State, items []modItem) {
	for _, it := range items {
		switch it.kind {
		case "all":
			x.havocAll(st)
			x.havocGhosts(st)
		case "field":
			v := x.freshOf("hv."+it.fi.Name, it.fi.T)
			x.storeField(st.heap, it.ref, it.fi, v)
		case "object":
			x.havocObject(st, it.ref, it.t)
		case "elems":
			if isStruct(it.et) {
				x.havocStructElems(st, it.sl, it.et)
			} else {
				x.havocElems(st, it.sl, it.et)
			}
		case "cell":
			name := "C." + elemKey(it.t)
			v := x.freshOf("hv.cell", it.t).(*Term)
			st.heap.m[name] = x.tb.Store(x.heapGet(st.heap, name, x.fieldMapSort(it.t)), it.ref, v)
		case "emap":
			if s, ok := x.heapSorts[it.ghost]; ok {
				st.heap.m[it.ghost] = x.tb.Fresh("hv."+it.ghost, s)
			} else {
				et := map[string]types.Type{"E.u16": types.Typ[types.Uint16], "E.u8": types.Typ[types.Uint8], "E.u32": types.Typ[types.Uint32]}[it.ghost]
				if et != nil {
					x.heapGet(st.heap, it.ghost, x.contentsSort(et))
					st.heap.m[it.ghost] = x.tb.Fresh("hv."+it.ghost, x.heapSorts[it.ghost])
				}
			}
		case "ghost":
			g := x.eng.specs.Ghosts[it.ghost[1:]]
			if g != nil {
				ec := &EvalCtx{x: x}
				t := ec.typeByName(g.Type)
				st.ghost["$"+g.Name] = x.tb.Fresh("hv.$"+g.Name, x.sortOf(t))
			}
		}
	}
}

// scalarFieldMaps lists the heap maps (with their sorts) holding the scalar / slice-header fields of
// struct type t and of the structs embedded in it by value.
func (x *FnCtx) scalarFieldMaps(t types.Type, out map[string]*Sort) {
	l := layoutOf(t)
	for i := range l.Fields {
		fi := &l.Fields[i]
		switch u := fi.T.Underlying().(type) {
		case *types.Struct:
			x.scalarFieldMaps(fi.T, out)
		case *types.Array:
			if isStruct(u.Elem()) {
				x.scalarFieldMaps(u.Elem(), out)
			}
			// arrays of scalars live in E.* keyed by the array reference (handled by the caller)
		case *types.Slice:
			base := fieldMap(fi)
			is := x.intSort()
			out[base+"#arr"] = ArraySort(IntSort, IntSort)
			out[base+"#off"] = ArraySort(IntSort, is)
			out[base+"#len"] = ArraySort(IntSort, is)
			out[base+"#cap"] = ArraySort(IntSort, is)
		default:
			out[fieldMap(fi)] = x.fieldMapSort(fi.T)
		}
	}
}

// havocStructElems: the elements sl[0:len] of a slice of structs get arbitrary field values; every
// other object keeps its fields (frame axiom over the slot range of the elements).
func (x *FnCtx) havocStructElems(st *State, sl SliceV, et types.Type) {
	tb := x.tb
	slot := slotSize(et)
	lo := tb.Add(sl.Arr, tb.Mul(x.toInt(sl.Off), tb.IntC(slot)))
	hi := tb.Add(lo, tb.Mul(x.toInt(sl.Len), tb.IntC(slot)))
	maps := map[string]*Sort{}
	x.scalarFieldMaps(et, maps)
	for _, name := range sortedKeys(maps) {
		srt := maps[name]
		old := x.heapGet(st.heap, name, srt)
		nw := tb.Fresh("hv."+shortKey(name), srt)
		x.eng.qctr++
		k := tb.Var(fmt.Sprintf("fk?%d", x.eng.qctr), IntSort)
		st.pc = tb.And(st.pc, tb.Forall([]*Term{k}, tb.Implies(tb.Or(tb.Lt(k, lo), tb.Le(hi, k)), tb.Eq(tb.Select(nw, k), tb.Select(old, k)))))
		st.heap.m[name] = nw
	}
}

// frameObligations: at a return, every heap map may differ from the entry
// heap only at locations named by the modifies clause or freshly allocated.
func (x *FnCtx) frameObligations(name string, entry, exit *State, items []modItem) {
	tb := x.tb
	for _, it := range items {
		if it.kind == "all" {
			return
		}
	}
	names := map[string]bool{}
	for k := range exit.heap.m {
		names[k] = true
	}
	if exit.heap.baseSuffix() != entry.heap.baseSuffix() {
		// a total havoc happened on the way: every known map may have changed
		for k := range x.heapSorts {
			names[k] = true
		}
	}
	for _, k := range sortedKeys(names) {
		if strings.HasPrefix(k, "B.") {
			continue
		}
		s := x.heapSorts[k]
		if s == nil {
			continue
		}
		if _, ok := exit.heap.m[k]; !ok {
			exit.heap.m[k] = tb.Var(k+exit.heap.baseSuffix(), s)
		}
		e0, ok := entry.heap.m[k]
		if !ok {
			e0 = tb.Var(k+entry.heap.baseSuffix(), s)
		}
		e1 := exit.heap.m[k]
		if e0 == e1 {
			continue
		}
		skip := false
		for _, it := range items {
			if it.kind == "emap" && it.ghost == k {
				skip = true
			}
		}
		if skip {
			continue
		}
		key := tb.Fresh("fk", IntSort)
		allowed := []*Term{tb.Le(entry.heap.A, key), tb.Lt(key, tb.IntC(1))}
		var goal *Term
		if strings.HasPrefix(k, "E.") {
			j := tb.Fresh("fj", x.intSort())
			for _, it := range items {
				if it.kind == "elems" && "E."+elemKey(it.et) == k {
					allowed = append(allowed, tb.And(tb.Eq(key, it.sl.Arr), x.le(it.sl.Off, j), x.lt(j, x.iadd(it.sl.Off, it.sl.Len))))
				}
				if it.kind == "object" {
					// arrays embedded in the object
					for _, off := range arrayOffsets(it.t, k) {
						allowed = append(allowed, tb.Eq(key, x.refAdd(it.ref, off)))
					}
				}
			}
			goal = tb.Or(tb.Or(allowed...), tb.Eq(x.sel(x.sel(e1, key), j), x.sel(x.sel(e0, key), j)))
		} else {
			for _, it := range items {
				switch it.kind {
				case "field":
					base := fieldMap(it.fi)
					if k == base || strings.HasPrefix(k, base+"#") {
						allowed = append(allowed, tb.Eq(key, it.ref))
					}
				case "object":
					for _, off := range fieldOffsets(it.t, k) {
						allowed = append(allowed, tb.Eq(key, x.refAdd(it.ref, off)))
					}
				case "cell":
					if k == "C."+elemKey(it.t) {
						allowed = append(allowed, tb.Eq(key, it.ref))
					}
				case "elems":
					if isStruct(it.et) {
						maps := map[string]*Sort{}
						x.scalarFieldMaps(it.et, maps)
						if _, ok := maps[k]; ok {
							slot := slotSize(it.et)
							lo := tb.Add(it.sl.Arr, tb.Mul(x.toInt(it.sl.Off), tb.IntC(slot)))
							hi := tb.Add(lo, tb.Mul(x.toInt(it.sl.Len), tb.IntC(slot)))
							allowed = append(allowed, tb.And(tb.Le(lo, key), tb.Lt(key, hi)))
						}
					}
				}
			}
			goal = tb.Or(tb.Or(allowed...), tb.Eq(x.sel(e1, key), x.sel(e0, key)))
		}
		x.addOb("modifies", fmt.Sprintf("%s/modifies:%s", name, strings.TrimPrefix(shortKey(k), "H.")), exit, goal, false, "frame of "+k)
	}
	// ghost and global state
	if exit.ghostSuffix() != entry.ghostSuffix() {
		for gk, gs := range x.ghostSorts {
			if _, ok := exit.ghost[gk]; !ok {
				exit.ghost[gk] = tb.Var(gk+exit.ghostSuffix(), gs)
			}
		}
	}
	for _, k := range sortedKeys(exit.ghost) {
		e1 := exit.ghost[k]
		e0, ok := entry.ghost[k]
		if !ok {
			e0 = tb.Var(k+entry.ghostSuffix(), e1.Sort)
		}
		if e0 == e1 {
			continue
		}
		okItem := false
		for _, it := range items {
			if it.kind == "ghost" && (it.ghost == k) {
				okItem = true
			}
		}
		if okItem {
			continue
		}
		x.addOb("modifies", fmt.Sprintf("%s/modifies:%s", name, shortKey(k)), exit, tb.Eq(e0, e1), false, "frame of "+k)
	}
}

// fieldOffsets lists offsets (relative to an object of type t) of sub-objects whose field map is k.
func fieldOffsets(t types.Type, k string) []int64 {
	var out []int64
	l := layoutOf(t)
	for i := range l.Fields {
		fi := &l.Fields[i]
		base := fieldMap(fi)
		if k == base || strings.HasPrefix(k, base+"#") {
			out = append(out, 0)
		}
		switch u := fi.T.Underlying().(type) {
		case *types.Struct:
			for _, o := range fieldOffsets(fi.T, k) {
				out = append(out, fi.Off+o)
			}
		case *types.Array:
			if isStruct(u.Elem()) {
				for n := int64(0); n < u.Len(); n++ {
					for _, o := range fieldOffsets(u.Elem(), k) {
						out = append(out, fi.Off+n*slotSize(u.Elem())+o)
					}
				}
			}
		}
	}
	return out
}

func arrayOffsets(t types.Type, k string) []int64 {
	var out []int64
	l := layoutOf(t)
	for i := range l.Fields {
		fi := &l.Fields[i]
		switch u := fi.T.Underlying().(type) {
		case *types.Struct:
			for _, o := range arrayOffsets(fi.T, k) {
				out = append(out, fi.Off+o)
			}
		case *types.Array:
			if isStruct(u.Elem()) {
				for n := int64(0); n < u.Len(); n++ {
					for _, o := range arrayOffsets(u.Elem(), k) {
						out = append(out, fi.Off+n*slotSize(u.Elem())+o)
					}
				}
			} else if "E."+elemKey(u.Elem()) == k {
				out = append(out, fi.Off)
			}
		}
	}
	return out
}

// ---------- loops ----------

func (x *FnCtx) loopSpec(fr *Frame, li *loopInfo) *LoopSpec {
	if fr.ctr != nil {
		if ls := fr.ctr.Loops[li.ord]; ls != nil {
			return ls
		}
	}
	return &LoopSpec{}
}

// modifiedInLoop collects cells stored to and whether the heap may change.
func modifiedInLoop(li *loopInfo) (cells map[*ssa.Alloc]bool, heapTouched bool) {
	cells = map[*ssa.Alloc]bool{}
	for b := range li.blocks {
		for _, in := range b.Instrs {
			switch v := in.(type) {
			case *ssa.Store:
				if a, ok := v.Addr.(*ssa.Alloc); ok {
					et := derefType(a.Type())
					if !isStruct(et) {
						if _, isArr := et.Underlying().(*types.Array); !isArr {
							cells[a] = true
							continue
						}
					}
				}
				heapTouched = true
			case *ssa.Call:
				if b, ok := v.Call.Value.(*ssa.Builtin); ok {
					switch b.Name() {
					case "copy", "append":
						heapTouched = true
					}
					continue
				}
				heapTouched = true
			case *ssa.Alloc, *ssa.MakeSlice, *ssa.MakeInterface, *ssa.MakeClosure, *ssa.MakeMap:
				heapTouched = true
			case *ssa.Defer, *ssa.Go, *ssa.MapUpdate, *ssa.Send:
				heapTouched = true
			}
		}
	}
	return
}

func (x *FnCtx) enterLoop(fr *Frame, st *State, li *loopInfo, pre **State, decr *[]*Term) *State {
	tb := x.tb
	ls := x.loopSpec(fr, li)
	name := fmt.Sprintf("%sloop%d", fr.prefix, li.ord)
	// establish invariants
	ec := &EvalCtx{x: x, fn: fr.fn, pkg: pkgOf(fr.fn), cur: st, old: fr.entry, params: x.frameParams(fr), frame: fr, oldA: fr.entry.heap.A}
	for i, inv := range ls.Invariants {
		if !x.eng.clauseActive(inv) {
			continue
		}
		g, facts := ec.boolWithFacts(inv.E)
		if ec.err != nil {
			x.errs = append(x.errs, fmt.Sprintf("%s invariant %d: %v", name, i+1, ec.err))
			ec.err = nil
			continue
		}
		st.pc = tb.And(st.pc, facts)
		x.addOb("inv-init", fmt.Sprintf("%s/inv-init#%d", name, i+1), st, g, false, inv.Src)
	}
	*pre = st.Clone()
	// havoc
	cells, heapTouched := modifiedInLoop(li)
	h := st.Clone()
	for a := range cells {
		if old, ok := h.cells[a]; ok {
			h.cells[a] = x.havocLike(old, derefType(a.Type()), "loop."+a.Comment)
		}
	}
	if heapTouched {
		if ls.HasMod || (fr.ctr != nil && fr.ctr.HasMod && fr.depth == 0) {
			var items []modItem
			if ls.HasMod {
				mec := &EvalCtx{x: x, fn: fr.fn, pkg: pkgOf(fr.fn), cur: st, old: fr.entry, params: x.frameParams(fr), frame: fr, oldA: fr.entry.heap.A}
				items = x.resolveModifies(ls.Modifies, mec, name)
			} else {
				// default: the function's own modifies clause, evaluated in the entry state
				mec := &EvalCtx{x: x, fn: fr.fn, pkg: pkgOf(fr.fn), cur: fr.entry, old: fr.entry, params: x.frameParams(fr), oldA: fr.entry.heap.A}
				items = x.resolveModifies(fr.ctr.Modifies, mec, name)
			}
			x.havocItems(h, items)
			a := tb.Fresh("A", IntSort)
			h.pc = tb.And(h.pc, tb.Le(h.heap.A, a))
			h.heap.A = a
		} else {
			x.havocAll(h)
			x.havocGhosts(h)
		}
	}
	// assume invariants
	ec2 := &EvalCtx{x: x, fn: fr.fn, pkg: pkgOf(fr.fn), cur: h, old: fr.entry, params: x.frameParams(fr), frame: fr, oldA: fr.entry.heap.A}
	for _, inv := range ls.Invariants {
		if !x.eng.clauseActive(inv) {
			continue
		}
		g, facts := ec2.boolWithFacts(inv.E)
		if ec2.err != nil {
			ec2.err = nil
			continue
		}
		h.pc = tb.And(h.pc, g, facts)
	}
	for _, d := range ls.Decreases {
		v := ec2.eval(d.E)
		if ec2.err != nil {
			x.errs = append(x.errs, fmt.Sprintf("%s decreases: %v", name, ec2.err))
			ec2.err = nil
			continue
		}
		*decr = append(*decr, ec2.mat(v, v.T))
	}
	return h
}

func (x *FnCtx) havocLike(old Value, t types.Type, name string) Value {
	switch old.(type) {
	case LocV, FuncV:
		return UnknownV{"pointer cell modified in loop"}
	case StructV:
		return UnknownV{"struct cell modified in loop"}
	}
	return x.freshOf(name, t)
}

func (x *FnCtx) backEdge(fr *Frame, st *State, li *loopInfo, pre *State, decr []*Term) {
	tb := x.tb
	ls := x.loopSpec(fr, li)
	name := fmt.Sprintf("%sloop%d", fr.prefix, li.ord)
	ec := &EvalCtx{x: x, fn: fr.fn, pkg: pkgOf(fr.fn), cur: st, old: fr.entry, params: x.frameParams(fr), frame: fr, oldA: fr.entry.heap.A}
	for i, inv := range ls.Invariants {
		if !x.eng.clauseActive(inv) {
			continue
		}
		g, facts := ec.boolWithFacts(inv.E)
		if ec.err != nil {
			ec.err = nil
			continue
		}
		st.pc = tb.And(st.pc, facts)
		x.addOb("inv-step", fmt.Sprintf("%s/inv-step#%d", name, i+1), st, g, false, inv.Src)
	}
	for i, d := range ls.Decreases {
		if i >= len(decr) {
			break
		}
		v := ec.eval(d.E)
		if ec.err != nil {
			ec.err = nil
			continue
		}
		nv := ec.mat(v, v.T)
		var g *Term
		if x.bv {
			g = tb.And(tb.BVCmp("bvslt", nv, decr[i]), tb.BVCmp("bvsle", tb.BVC(bigZero, nv.Sort.Width), decr[i]))
		} else {
			g = tb.And(tb.Lt(nv, decr[i]), tb.Le(tb.IntC(0), decr[i]))
		}
		x.addOb("decreases", fmt.Sprintf("%s/decreases#%d", name, i+1), st, g, false, d.Src)
	}
	if ls.HasMod {
		mec := &EvalCtx{x: x, fn: fr.fn, pkg: pkgOf(fr.fn), cur: pre, old: fr.entry, params: x.frameParams(fr), frame: fr, oldA: fr.entry.heap.A}
		items := x.resolveModifies(ls.Modifies, mec, name)
		x.frameObligations(name, pre, st, items)
	} else if fr.ctr != nil && fr.ctr.HasMod && fr.depth == 0 {
		// the loop head was havocked with the function's own modifies clause: the body must not change
		// anything else - in particular not objects this function allocated before the loop, which the
		// frame check at the returns would accept as fresh
		mec := &EvalCtx{x: x, fn: fr.fn, pkg: pkgOf(fr.fn), cur: fr.entry, old: fr.entry, params: x.frameParams(fr), oldA: fr.entry.heap.A}
		items := x.resolveModifies(fr.ctr.Modifies, mec, name)
		x.frameObligations(name, pre, st, items)
	}
}

func pkgOf(fn *ssa.Function) *types.Package {
	for f := fn; f != nil; f = f.Parent() {
		if f.Pkg != nil {
			return f.Pkg.Pkg
		}
	}
	return nil
}

func (x *FnCtx) frameParams(fr *Frame) map[string]TV {
	ps := map[string]TV{}
	for i, p := range fr.fn.Params {
		if i < len(fr.params) {
			ps[p.Name()] = TV{V: fr.params[i], T: p.Type()}
		}
	}
	// captured variables of a closure verified on its own: the name denotes the pointer to the cell
	for i, fv := range fr.fn.FreeVars {
		if i < len(fr.binds) {
			if t, ok := fr.binds[i].(*Term); ok {
				ps[fv.Name()] = TV{V: t, T: fv.Type()}
			}
		}
	}
	return ps
}

// ---------- defers ----------

func (x *FnCtx) deferred(fr *Frame, st *State, in *ssa.Defer) {
	// arguments are evaluated at the defer statement
	var args []Value
	for _, a := range in.Call.Args {
		args = append(args, x.val(fr, st, a))
	}
	deferArgs[in] = args
	if !in.Call.IsInvoke() {
		if _, ok := in.Call.Value.(*ssa.Function); !ok {
			deferFn[in] = x.val(fr, st, in.Call.Value)
		}
	}
}

func deferDominatesSomeReturn(d *ssa.Defer) bool {
	for _, b := range d.Parent().Blocks {
		for _, in := range b.Instrs {
			if _, ok := in.(*ssa.RunDefers); ok && (d.Block() == b || d.Block().Dominates(b)) {
				return true
			}
		}
	}
	return false
}

var deferArgs = map[*ssa.Defer][]Value{}
var deferFn = map[*ssa.Defer]Value{}

func (x *FnCtx) runDefers(fr *Frame, st *State, at *ssa.BasicBlock) {
	// Defers registered on every path to here, in reverse order. A defer inside a
	// branch is modelled as registered iff its block dominates the current point;
	// others are outside the subset.
	for i := len(fr.defers) - 1; i >= 0; i-- {
		d := fr.defers[i]
		if at != nil && d.Block() != at && !d.Block().Dominates(at) {
			// not registered on the paths to this point (a defer inside a branch that does not
			// dominate the return is outside the subset: it is neither run nor reported)
			if !deferDominatesSomeReturn(d) {
				x.abstracted("defer in a block that dominates no return: ignored")
			}
			continue
		}
		args := deferArgs[d]
		site := fr.prefix + fr.siteOrd[d]
		c := &d.Call
		if c.IsInvoke() {
			x.abstracted("deferred interface call")
			x.havocAll(st)
			continue
		}
		switch callee := c.Value.(type) {
		case *ssa.Function:
			x.callFunction(fr, st, callee, args, nil, site, callee.Signature.Results())
		default:
			if fv, ok := deferFn[d].(FuncV); ok {
				x.callFunction(fr, st, fv.Fn, args, fv.Bindings, site, fv.Fn.Signature.Results())
			} else {
				x.abstracted("deferred dynamic call")
				x.havocAll(st)
			}
		}
	}
}

// dynFieldName: the callee is a func value loaded from a struct field: its field name.
func dynFieldName(v ssa.Value) string {
	u, ok := v.(*ssa.UnOp)
	if !ok {
		return ""
	}
	if a, isAlloc := u.X.(*ssa.Alloc); isAlloc && a.Comment != "" {
		// func-typed parameter or local (naive form keeps it in a named cell): dyn.<name>
		if _, isSig := derefType(a.Type()).Underlying().(*types.Signature); isSig {
			return a.Comment
		}
	}
	if g, isGlobal := u.X.(*ssa.Global); isGlobal {
		// package-level variable of function type: dyn.<name>
		if _, isSig := derefType(g.Type()).Underlying().(*types.Signature); isSig {
			return g.Name()
		}
	}
	fa, ok := u.X.(*ssa.FieldAddr)
	if !ok {
		return ""
	}
	st, ok := derefType(fa.X.Type()).Underlying().(*types.Struct)
	if !ok {
		return ""
	}
	return st.Field(fa.Field).Name()
}

// dispatchCall: interface call whose dynamic type is one of the listed module types
// (obligation: it is); each candidate is called through its own contract, results are merged.
func (x *FnCtx) dispatchCall(fr *Frame, st *State, recv *Term, full []Value, cands []string, site string, resT types.Type) Value {
	tb := x.tb
	pkg := pkgOf(fr.fn).Path()
	var tags []*Term
	var fns []*ssa.Function
	for _, c := range cands {
		f := x.eng.fnByKey[canonKey(pkg, c)]
		if f == nil || f.Signature.Recv() == nil {
			x.errs = append(x.errs, fmt.Sprintf("%s: dispatch candidate %s not found", site, c))
			continue
		}
		fns = append(fns, f)
		tags = append(tags, tb.Eq(x.typeOf(recv), x.typeTag(f.Signature.Recv().Type())))
	}
	x.safetyOb("dispatch", site+"/dispatch", st, tb.Or(tags...))
	var es []edge
	var vals []Value
	var conds []*Term
	for i, f := range fns {
		s := st.Clone()
		s.pc = tb.And(s.pc, tags[i])
		v := x.callFunction(fr, s, f, full, nil, fmt.Sprintf("%s/as:%s", site, cands[i]), resT)
		es = append(es, edge{nil, s})
		vals = append(vals, v)
		conds = append(conds, s.pc)
	}
	if len(es) == 0 {
		return x.unknownCall(st, "dispatch", full, resT, site)
	}
	merged := x.mergeStates(es)
	*st = *merged
	return x.mergeValues(conds, vals)
}

// dispatchCands: candidates declared for this interface call site (top frame only).
func (x *FnCtx) dispatchCands(fr *Frame, in *ssa.Call) []string {
	if fr.ctr == nil || fr.depth != 0 || !in.Call.IsInvoke() {
		return nil
	}
	return fr.ctr.Dispatch[fr.siteOrd[in]]
}

// dispatchFork: one successor state per candidate implementation (no merging).
func (x *FnCtx) dispatchFork(fr *Frame, st *State, in *ssa.Call, cands []string) []*State {
	tb := x.tb
	c := in.Common()
	site := fr.prefix + fr.siteOrd[in]
	recv := x.term(fr, st, c.Value)
	x.safetyOb("nil", site+"/recv", st, tb.Ne(recv, tb.IntC(0)))
	var args []Value
	for _, a := range c.Args {
		args = append(args, x.val(fr, st, a))
	}
	full := append([]Value{recv}, args...)
	pkg := pkgOf(fr.fn).Path()
	var tags []*Term
	var fns []*ssa.Function
	for _, cn := range cands {
		f := x.eng.fnByKey[pkg+"."+cn]
		if f == nil || f.Signature.Recv() == nil {
			x.errs = append(x.errs, fmt.Sprintf("%s: dispatch candidate %s not found", site, cn))
			continue
		}
		fns = append(fns, f)
		tags = append(tags, tb.Eq(x.typeOf(recv), x.typeTag(f.Signature.Recv().Type())))
	}
	x.safetyOb("dispatch", site+"/dispatch", st, tb.Or(tags...))
	var out []*State
	for i, f := range fns {
		s := st.Clone()
		s.pc = tb.And(s.pc, tags[i])
		v := x.callFunction(fr, s, f, full, nil, fmt.Sprintf("%s/as:%s", site, cands[i]), in.Type())
		x.setReg(s, in, v)
		out = append(out, s)
	}
	return out
}
